#!/bin/bash
# Runs the repository's pinned suite with the guard off and compares with /root/.vp/BASELINE.json (stable_pass).
cd /repo || exit 2
OUT=${1:-/tmp/verif-baseline.junit.xml}
/venv/bin/python -m pytest -ra -q -p no:cacheprovider --timeout=900 --continue-on-collection-errors --junitxml="$OUT" > /tmp/verif-baseline.log 2>&1
/venv/bin/python - "$OUT" <<'PY'
import json, sys, xml.etree.ElementTree as ET
base = set(json.load(open('/root/.vp/BASELINE.json'))['stable_pass'])
passed = set()
for tc in ET.parse(sys.argv[1]).getroot().iter('testcase'):
    if not any(ch.tag in ('failure', 'error', 'skipped') for ch in tc):
        passed.add(f"{tc.get('classname')}::{tc.get('name')}")
missing = sorted(base - passed)
print(f"baseline stable_pass={len(base)} passed_now={len(passed)} missing={len(missing)}")
for m in missing[:40]:
    print("  MISSING", m)
sys.exit(1 if missing else 0)
PY
