------------------------------- MODULE Gen_Docs -------------------------------
(***************************************************************************)
(* M2 generator for the document side of C12: abstract Sonar / SARIF /     *)
(* DefectDojo result documents (and short sequences of result files) ->    *)
(* the findings a codemod must see, computed with Findings.tla.            *)
(* Entries are referred to by index into the pools of FindData.tla; the    *)
(* finding made from entry number p of a part/run is identified <<tag, p>>.*)
(***************************************************************************)
EXTENDS Findings, FindData, TLC

VARIABLES sc, exp, st

Shapes == {"absent", "null", "empty"}
IdxSeqs(pool, n) == UNION {[1..k -> 1..Len(pool)] : k \in 1..n}

SonarParts == {<<s, <<>>>> : s \in Shapes} \cup {<<"list", l>> : l \in IdxSeqs(SonarEntries, 1) \cup SonarExtraLists}

SonarPart(tag, p) ==
  [shape |-> p[1],
   entries |-> [i \in 1..Len(p[2]) |->
        LET e == SonarEntries[p[2][i]] IN
        [status |-> e.status, hasRange |-> e.hasRange, rule |-> e.rule, file |-> e.file, id |-> <<tag, i>>]]]

SonarDoc(d) == [issues |-> SonarPart("i", d[1]), hotspots |-> SonarPart("h", d[2])]

\* a SARIF result may list several locations; one in ANOTHER file makes it a finding of that file too; a second location
\* in the SAME file ("samefile") does not make it two findings of that file
OtherFile(f) == IF f = "f1" THEN "f2" ELSE "f1"
SarifRun(r, ri) ==
  [tool |-> r[1],
   results |-> FlattenSeq([i \in 1..Len(r[2]) |->
        LET e == SarifEntries[r[2][i]]
            rec(f) == [rule |-> e.rule, file |-> f, hasRegion |-> TRUE, id |-> <<ri, i>>]
        IN IF e.also = "otherfile" THEN <<rec(e.file), rec(OtherFile(e.file))>> ELSE <<rec(e.file)>>])]
SarifDoc(d) == [ri \in 1..Len(d) |-> SarifRun(d[ri], ri)]

DojoDoc(d, fi) == [i \in 1..Len(d) |-> LET e == DojoEntries[d[i]] IN [rule |-> e.rule, file |-> e.file, id |-> <<fi, i>>]]

Scenarios ==
     {[kind |-> "sonar", doc |-> <<a, b>>] : a \in SonarParts, b \in SonarParts}
  \cup {[kind |-> "sonarfiles", doc |-> s] : s \in IdxSeqs(SonarFilePool, 3)}
  \cup {[kind |-> "sarif", doc |-> d] : d \in SarifDocs}
  \cup {[kind |-> "dojofiles", doc |-> s] : s \in IdxSeqs(DojoFilePool, 3)}

\* file number fi of a "sonarfiles" scenario: ids are made unique per file by tagging with the file position
Retag(rs, fi) == [k \in DOMAIN rs |-> [i \in 1..Len(rs[k]) |-> [rs[k][i] EXCEPT !.id = <<fi>> \o @]]]

Expected(s) ==
  CASE s.kind = "sonar" -> [sonar |-> ExtractSonar(SonarDoc(s.doc))]
    [] s.kind = "sonarfiles" ->
         [sonar |-> MergeAll([fi \in 1..Len(s.doc) |-> Retag(ExtractSonar(SonarDoc(SonarFilePool[s.doc[fi]])), fi)])]
    [] s.kind = "sarif" ->
         [semgrep |-> ExtractSarif(SarifDoc(s.doc), "semgrep"), codeql |-> ExtractSarif(SarifDoc(s.doc), "codeql")]
    [] s.kind = "dojofiles" ->
         [dojo |-> MergeAll([fi \in 1..Len(s.doc) |-> ExtractDojo(DojoDoc(DojoFilePool[s.doc[fi]], fi))])]

Init == sc \in Scenarios /\ exp = <<>> /\ st = "init"
Step == st = "init" /\ st' = "done" /\ exp' = Expected(sc) /\ UNCHANGED sc
Spec == Init /\ [][Step]_<<sc, exp, st>>

\* lemma: resolved entries and entries without a range never appear; open ones with a range all do
SonarLemma ==
  (st = "done" /\ sc.kind = "sonar") =>
     LET d == SonarDoc(sc.doc)
         all == PartEntries(d.issues) \o PartEntries(d.hotspots)
         good == {all[i].id : i \in {j \in 1..Len(all) : SonarOpen(all[j]) /\ all[j].hasRange}}
         got == UNION {{exp.sonar[k][i].id : i \in 1..Len(exp.sonar[k])} : k \in DOMAIN exp.sonar}
     IN got = good
=============================================================================
