SPECIFICATION Spec
CONSTANTS
  MaxConds = 2
  MaxItems = 3
  RuleVariant = "tree"
INVARIANT C08_PatternsAreCompleteQuotedValues
INVARIANT LemmaNoDuplicate
CHECK_DEADLOCK FALSE
