SPECIFICATION Spec
CONSTANTS
  N = 4
  W = 3
  Bug = "none"
INVARIANT C11_WorkerBound
INVARIANT OncEach
INVARIANT C11_Deterministic
PROPERTY Terminates
