SPECIFICATION Spec
INVARIANT SonarLemma
CHECK_DEADLOCK FALSE
