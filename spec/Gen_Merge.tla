------------------------------ MODULE Gen_Merge ------------------------------
(***************************************************************************)
(* M2 generator for the merge algebra of C12: all ordered pairs (and the   *)
(* seeded triples) of result sets over rules {r1,r2} x files {f1,f2} with  *)
(* 0..MaxPer findings per key.  A set is given by its per-key counts; the  *)
(* findings of set number s are named <<s, key, i>>.                       *)
(***************************************************************************)
EXTENDS Findings, MergeData, TLC

VARIABLES sc, exp, st

Keys == {<<r, f>> : r \in {"r1", "r2"}, f \in {"f1", "f2"}}
Counts == [Keys -> 0..MaxPer]

SetOf(s, cnt) ==
  [k \in {k \in Keys : cnt[k] > 0} |->
      [i \in 1..cnt[k] |-> [rule |-> k[1], file |-> k[2], id |-> <<s, i>>]]]

Scenarios == {<<a, b>> : a \in Counts, b \in Counts} \cup ExtraTuples

Sets(t) == [s \in 1..Len(t) |-> SetOf(s, t[s])]

Init == sc \in Scenarios /\ exp = <<>> /\ st = "init"
Step == st = "init" /\ st' = "done" /\ exp' = MergeAll(Sets(sc)) /\ UNCHANGED sc
Spec == Init /\ [][Step]_<<sc, exp, st>>

Done == st = "done"
\* the reference merge loses nothing, invents nothing, and is associative / commutative on bags
LemmaTotal == Done => Total(exp) = LET RECURSIVE T(_) T(i) == IF i = 0 THEN 0 ELSE Total(Sets(sc)[i]) + T(i - 1) IN T(Len(sc))
LemmaCommutes == Done => SameBags(exp, MergeAll(Reverse(Sets(sc))))
LemmaAssoc == (Done /\ Len(sc) = 3) =>
   exp = Merge2(Sets(sc)[1], Merge2(Sets(sc)[2], Sets(sc)[3]))
=============================================================================
