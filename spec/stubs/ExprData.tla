---- MODULE ExprData ----
Pairs == << << [t |-> "name", n |-> "c"], [t |-> "name", n |-> "c"] >> >>
====
