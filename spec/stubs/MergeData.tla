---- MODULE MergeData ----
MaxPer == 1
ExtraTuples == {}
====
