---- MODULE CliData ----
Tokens == << [k |-> "dir", v |-> "ok"], [k |-> "info", v |-> "list"], [k |-> "output", v |-> "isdir"] >>
MaxLen == 2
EnvLen == 1
ExtraSeqs == {}
EnvSeqs == {}
DirTok == 1
Interesting == {3}
====
