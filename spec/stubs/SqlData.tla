------------------------------ MODULE SqlData ------------------------------
(* stub: the harness writes the longer queries it sampled here *)
ExtraQueries == {<<[q |-> TRUE, items |-> <<"h">>], [q |-> TRUE, items |-> <<"h">>], [q |-> TRUE, items |-> <<"a">>], [q |-> FALSE, items |-> <<"h">>],
                  [q |-> TRUE, items |-> <<"a">>], [q |-> FALSE, items |-> <<"h">>], [q |-> TRUE, items |-> <<"a">>]>>}
=============================================================================
