---- MODULE SelData ----
RegIds == << <<97,58,98>>, <<97,58,99>>, <<115,58,98>> >>
RegOrigins == <<"pixee","pixee","sonar">>
Pats == << <<97,58,98>>, <<97,42>>, <<42,98>>, <<122>> >>
DefExc == << <<97,58,99>> >>
MaxLen == 2
ExtraLists == { <<1,2,3>> }
====
