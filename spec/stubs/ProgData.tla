---- MODULE ProgData ----
EXTENDS TLC
Programs == {"requests", "plain"}
Trig == ("requests" :> <<"a", "b">> @@ "plain" :> <<"c">>)
DepAdding == {"a"}
Layouts == {"lf", "crlf"}
Manifests == {"none", "requirements"}
MaxSeq == 2
====
