---- MODULE FindData ----
SonarEntries == << [status |-> "OPEN", hasRange |-> TRUE, rule |-> "r1", file |-> "f1"], [status |-> "RESOLVED", hasRange |-> TRUE, rule |-> "r1", file |-> "f1"] >>
SonarExtraLists == { <<1, 2>> }
SonarFilePool == << << <<"list", <<1>> >>, <<"absent", <<>> >> >>, << <<"absent", <<>> >>, <<"list", <<1>> >> >> >>
SarifEntries == << [rule |-> "r1", file |-> "f1", viaIndex |-> FALSE, also |-> "none"], [rule |-> "r1", file |-> "f2", viaIndex |-> FALSE, also |-> "otherfile"] >>
SarifDocs == { << <<"semgrep", <<1>> >>, <<"codeql", <<1>> >> >> }
DojoEntries == << [rule |-> "r1", file |-> "f1"] >>
DojoFilePool == << <<1>>, <<>> >>
====
