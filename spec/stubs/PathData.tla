---- MODULE PathData ----
Tree == << [rel |-> <<97,46,112,121>>, isPy |-> TRUE, symlink |-> FALSE, pinned |-> FALSE, dontcare |-> FALSE] >>
Pats == << <<42,46,112,121>>, <<97,46,112,121,58,49>> >>
TrigLine == [ff |-> 1, sast |-> 2]
MaxInc == 1
MaxExc == 1
ExtraScenarios == {}
====
