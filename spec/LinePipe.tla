------------------------------- MODULE LinePipe -------------------------------
(***************************************************************************)
(* C19 (regex half) - reference semantics of the line-oriented transformer *)
(* pipelines offered to plugin codemods, and M2 generator over all small   *)
(* documents.                                                              *)
(* A document is a sequence of lines [m, f]: m = the pattern matches the   *)
(* line, f = the NUMBER of findings reported on the line (0, 1 or 2: a     *)
(* tool may report several findings at one line).  mode "plain": every       *)
(* matching line is edited; mode "sast": only matching lines that carry a  *)
(* finding, and a finding on a line that does not match is reported as     *)
(* unfixed.  One change per edited line, numbered with that line (1-based) *)
(* and carrying exactly the findings of that line, the line edited ONCE    *)
(* however many findings it carries; every other line is                   *)
(* byte-identical; nothing is written under dry-run.                       *)
(***************************************************************************)
EXTENDS Naturals, Sequences, FiniteSets, TLC

CONSTANT MaxLines

VARIABLES d, exp, st

Line == [m : BOOLEAN, f : 0..2]
Docs == UNION {[1..n -> Line] : n \in 1..MaxLines}
Scenarios == {[doc |-> x, mode |-> mo, eol |-> e, finalnl |-> fn, dry |-> dr] :
                x \in Docs, mo \in {"plain", "sast", "sast-noresults"}, e \in {"lf", "crlf"}, fn \in BOOLEAN, dr \in BOOLEAN}

Edited(s) ==
  {i \in 1..Len(s.doc) :
     CASE s.mode = "plain" -> s.doc[i].m
       [] s.mode = "sast"  -> s.doc[i].m /\ s.doc[i].f > 0
       [] OTHER            -> FALSE}                       \* SAST use without any result: nothing is edited

\* findings that must be attached to the change of line i: those reported on line i (and only those)
ChangeFindings(s, i) == IF s.mode # "sast-noresults" THEN {<<i, k>> : k \in 1..s.doc[i].f} ELSE {}

Unfixed(s) == IF s.mode = "sast" THEN UNION {{<<i, k>> : k \in 1..s.doc[i].f} : i \in {j \in 1..Len(s.doc) : ~s.doc[j].m}} ELSE {}

Init == d \in Scenarios /\ st = "init" /\ exp = [edited |-> {}, findings |-> <<>>, unfixed |-> {}, writes |-> FALSE]
Next == /\ st = "init" /\ st' = "done" /\ UNCHANGED d
        /\ exp' = [edited |-> Edited(d),
                   findings |-> [i \in Edited(d) |-> ChangeFindings(d, i)],
                   unfixed |-> Unfixed(d),
                   writes |-> (~d.dry /\ Edited(d) # {})]
Spec == Init /\ [][Next]_<<d, exp, st>>

LemmaEditedMatch == st = "done" => \A i \in exp.edited : d.doc[i].m
LemmaSastNeedsFinding == (st = "done" /\ d.mode = "sast") => \A i \in exp.edited : d.doc[i].f > 0
=============================================================================
