------------------------------ MODULE WithScope ------------------------------
(***************************************************************************)
(* C08 - the `with` wrapping of fix-file-resource-leak                      *)
(* (core_codemods/file_resource_leak.py: ResourceLeakFixer).                *)
(*                                                                         *)
(*     f = open("data.txt")                f = open(...) is statement 0     *)
(*     <s1> ... <sn>                       the statements that follow it    *)
(*                                                                         *)
(* is rewritten to  `with open("data.txt") as f:` whose block holds        *)
(* s1..sE; the file is closed when the block is left.  The resource is      *)
(* reachable through the target and through every transitive alias         *)
(* (`g = f`, `h = g`).  This module gives the statements an abstract        *)
(* execution (reads from an open file print a line, a read from a closed   *)
(* file raises ValueError and ends the program) and decides for which      *)
(* block extents E the rewritten program behaves like the original:        *)
(* exactly those that reach the last use through ANY alias.                *)
(*                                                                         *)
(* One state per program of the bounded family; the harness renders each   *)
(* program, runs the real codemod, reads the extent of the block it built  *)
(* and executes both programs (M2 + observed behaviour).                   *)
(***************************************************************************)
EXTENDS Integers, Sequences, FiniteSets, TLC

CONSTANT MaxLen

Names == {"f", "g", "h"}
Alias(new, old) == [k |-> "alias", new |-> new, old |-> old]
Use(n) == [k |-> "use", n |-> n]            \* print(n.readline())
IfUse(n) == [k |-> "ifuse", n |-> n]        \* the same read inside a compound statement
Other == [k |-> "other"]                    \* print("mid")
Stmts == {Alias(a, b) : a \in {"g", "h"}, b \in Names} \cup {Use(n) : n \in Names} \cup {IfUse(n) : n \in Names} \cup {Other}

\* names bound to the resource before statement i (the target is bound by statement 0)
RECURSIVE BoundBefore(_, _)
BoundBefore(p, i) ==
  IF i <= 1 THEN {"f"}
  ELSE LET b == BoundBefore(p, i - 1) IN
       IF p[i - 1].k = "alias" THEN b \cup {p[i - 1].new} ELSE b

WellFormed(p) ==
  \A i \in 1..Len(p) :
     LET b == BoundBefore(p, i) IN
     CASE p[i].k = "alias" -> p[i].old \in b /\ p[i].new \notin b /\ p[i].new # p[i].old
       [] p[i].k \in {"use", "ifuse"} -> p[i].n \in b
       [] OTHER -> TRUE

Programs == UNION {{p \in [1..n -> Stmts] : WellFormed(p)} : n \in 1..MaxLen}

IsRead(s) == s.k \in {"use", "ifuse"}
\* the last statement that reads the resource through any of its names (0: none)
LastRead(p) == LET R == {i \in 1..Len(p) : IsRead(p[i])} IN IF R = {} THEN 0 ELSE CHOOSE i \in R : \A j \in R : j <= i
\* the last statement that mentions any of its names at all (what the code computes: accesses of every name)
LastMention(p) == LET R == {i \in 1..Len(p) : p[i].k # "other"} IN IF R = {} THEN 0 ELSE CHOOSE i \in R : \A j \in R : j <= i

(* abstract execution: output is a sequence of tokens; `closeAfter` = the statement after which the file is closed
   (Len(p) + 1: never, the original program) *)
RECURSIVE Exec(_, _, _, _)
Exec(p, i, closeAfter, reads) ==
  IF i > Len(p) THEN <<"end">>
  ELSE IF IsRead(p[i])
       THEN IF i > closeAfter THEN <<"ValueError">>
            ELSE <<<<"line", reads + 1>>>> \o Exec(p, i + 1, closeAfter, reads + 1)
       ELSE IF p[i].k = "other" THEN <<"mid">> \o Exec(p, i + 1, closeAfter, reads)
       ELSE Exec(p, i + 1, closeAfter, reads)

Original(p) == Exec(p, 1, Len(p) + 1, 0)
Wrapped(p, E) == Exec(p, 1, E, 0)

VARIABLES p, exp, st
Init == p \in Programs /\ exp = [minEnd |-> -1, mention |-> -1, out |-> <<>>] /\ st = "init"
Step == /\ st = "init" /\ st' = "done" /\ UNCHANGED p
        /\ exp' = [minEnd |-> LastRead(p), mention |-> LastMention(p), out |-> Original(p)]
Spec == Init /\ [][Step]_<<p, exp, st>>

\* the design statement: a block extent preserves behaviour exactly when it reaches the last read through any alias
C08_ExtentPreservesIffCoversLastRead ==
  \A E \in 0..Len(p) : (Wrapped(p, E) = Original(p)) <=> (E >= LastRead(p))
\* what the implementation computes (last mention of any name) is therefore always safe
LemmaMentionCovers == LastMention(p) >= LastRead(p)
=============================================================================
