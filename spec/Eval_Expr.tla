------------------------------- MODULE Eval_Expr -------------------------------
(***************************************************************************)
(* Second pass of C08: the expressions the REAL codemods produced, parsed  *)
(* back into the algebra by the harness, are compared with their originals *)
(* under every assignment by the evaluator of ExprRewrite.tla.  One state  *)
(* per pair; the verdict distinguishes environments in which argument      *)
(* names hold strings from those in which one holds a tuple.               *)
(***************************************************************************)
EXTENDS ExprRewrite, ExprData

VARIABLES k, verdict, st2

EnvsFor(x) == IF x.t = "not" /\ x.e.t = "cmp" THEN EnvsCmp ELSE EnvsCalls(FALSE)

EInit == k \in 1..Len(Pairs) /\ verdict = "pending" /\ st2 = "init"
EStep == /\ st2 = "init" /\ st2' = "done" /\ UNCHANGED k
         /\ LET a == Pairs[k][1]  b == Pairs[k][2] IN
            verdict' = IF ~Equivalent(a, b, EnvsFor(a)) THEN "differs"
                       ELSE IF ~(a.t = "not" /\ a.e.t = "cmp") /\ ~Equivalent(a, b, EnvsTupleNames) THEN "differs-when-a-name-holds-a-tuple"
                       ELSE "equivalent"
ESpec == EInit /\ [][EStep]_<<k, verdict, st2>>
=============================================================================
