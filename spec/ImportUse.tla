------------------------------ MODULE ImportUse ------------------------------
(***************************************************************************)
(* C02 - unused-imports (core_codemods/remove_unused_imports.py on top of   *)
(* libcst's GatherUnusedImportsVisitor).  The codemod runs on every file by *)
(* default and DELETES bindings, so the rule that decides "nobody uses this *)
(* import" is the whole of its safety.                                     *)
(*                                                                         *)
(* A program of the family binds one name N by an import statement of some  *)
(* form, at some place, and uses it in exactly one way (or not at all):    *)
(*   static uses    - a read of N that name resolution sees, from the scope *)
(*                    of the import or from a scope nested in it           *)
(*   annotation use - N inside a string annotation                         *)
(*   export uses    - the string "N" in the module's __all__: `from m      *)
(*                    import *` in another module then reads m.N; __all__  *)
(*                    can be built by a literal, `+=`, `.append`,          *)
(*                    `.extend`, or a concatenation                        *)
(*   no use         - N is only mentioned where it refers to another       *)
(*                    binding (a parameter, a re-binding before the read)  *)
(* and the statement may carry a linter pragma that asks for it to be kept. *)
(*                                                                         *)
(*   RuleVariant = "pinned": exports are recognised in `__all__ = [...]`    *)
(*                 and `__all__ += [...]` only (libcst's GatherExports)    *)
(*   RuleVariant = "tree":   every statement that mentions __all__         *)
(*                 contributes its string literals                        *)
(* TLC decides that the rule removes unused imports only; the harness      *)
(* renders every program, runs the real codemod, compares what was removed *)
(* with the rule and executes the program before and after.                *)
(***************************************************************************)
EXTENDS Naturals, FiniteSets, TLC

CONSTANT RuleVariant

Forms   == {"import", "import-as", "from", "from-as", "dotted", "dotted-as", "from-pair", "import-pair", "from-paren"}
Places  == {"module", "function", "class", "try", "if"}
Files   == {"mod", "init"}                     \* u.py | __init__.py (where imports are the interface of the package)
Pragmas == {"none", "noqa", "noqa-code", "pylint", "pylint-next"}

Static  == {"load", "nested-func", "class-body", "decorator", "default-arg", "annotation", "fstring", "comprehension",
            "lambda", "del", "global-func", "except", "base-class", "attr-assign", "return-annotation", "walrus"}
StrAnn  == {"str-annotation"}
Exports == {"all-literal", "all-tuple", "all-aug", "all-append", "all-extend", "all-concat"}
NoUse   == {"none", "shadow-param", "rebind-before", "other-name"}
Uses    == Static \cup StrAnn \cup Exports \cup NoUse

ModuleLevel(pl) == pl \in {"module", "try", "if"}
Programs == {[form |-> f, place |-> pl, use |-> u, file |-> fl, pragma |-> pg] :
               f \in Forms, pl \in Places, u \in Uses, fl \in Files, pg \in Pragmas}
WellFormed(p) ==
  /\ (p.use \in Exports \cup {"global-func", "str-annotation"}) => ModuleLevel(p.place)   \* __all__ / `global` / get_type_hints speak of module names
  /\ (p.place = "class") => p.use \in {"none", "load", "default-arg", "decorator", "other-name", "walrus"}   \* what a class body can read of itself
  /\ (p.pragma # "none") => (p.use \in {"none", "load", "all-append"} /\ p.file = "mod")
  /\ (p.file = "init") => (p.use \in {"none", "load", "all-append"} /\ p.place = "module")

\* ---- the rule
RecognisedExports == IF RuleVariant = "pinned" THEN {"all-literal", "all-tuple", "all-aug"} ELSE Exports
\* references are looked up by NAME in the scope of the import: a read that a later re-binding of the same name serves
\* counts as well (conservative); a parameter of the same name lives in another scope and does not
NameReads == Static \cup {"rebind-before"}
RuleSeesUse(p) == p.use \in NameReads \cup StrAnn \cup RecognisedExports
RuleRemoves(p) == /\ p.file # "init"
                  /\ p.pragma = "none"
                  /\ ~RuleSeesUse(p)

\* ---- the property: an import that remaining code still uses is not removed
InUse(p) == p.use \in Static \cup StrAnn \cup Exports

VARIABLES p, exp, st
Init == p \in {q \in Programs : WellFormed(q)} /\ exp = [removes |-> FALSE, inuse |-> FALSE] /\ st = "init"
Step == st = "init" /\ st' = "done" /\ UNCHANGED p /\ exp' = [removes |-> RuleRemoves(p), inuse |-> InUse(p)]
Spec == Init /\ [][Step]_<<p, exp, st>>

C02_RemovesOnlyUnusedImports == RuleRemoves(p) => ~InUse(p)
\* the clean-up is not vacuous: what nobody uses and nothing protects is removed
RemovesWhatIsUnused == (~InUse(p) /\ p.use # "rebind-before" /\ p.file = "mod" /\ p.pragma = "none") => RuleRemoves(p)
=============================================================================
