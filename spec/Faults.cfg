SPECIFICATION Spec
CONSTANT MaxFaults = 1
INVARIANT LemmaMustFailOnlyFaulted
CHECK_DEADLOCK FALSE
