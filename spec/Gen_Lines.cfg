SPECIFICATION Spec
INVARIANT LemmaNoPatternAllPermitted
CHECK_DEADLOCK FALSE
