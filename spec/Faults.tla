------------------------------- MODULE Faults -------------------------------
(***************************************************************************)
(* C10 - M2 generator: placements of faults in a run of two codemods over  *)
(* three files, for each pipeline kind, and what the property demands of   *)
(* each placement:                                                         *)
(*   mustFail  (codemod index, file index) pairs that must be reported as  *)
(*             failed (the codemod had selected the file),                 *)
(*   intact    files whose bytes must be the same before and after the     *)
(*             faulted step,                                               *)
(* every other (codemod, file) outcome, the exit status 0 and a valid      *)
(* report being checked against the fault-free twin run.                   *)
(*                                                                         *)
(* Static faults are properties of a file's bytes (they hit every codemod);*)
(* dynamic faults hit one (codemod, file) step.                            *)
(***************************************************************************)
EXTENDS Naturals, FiniteSets, TLC
CONSTANT MaxFaults

Pipes   == {"plain", "semgrep", "sast", "sast2", "multi", "late"}
\* multi: the first codemod of the run is a pipeline of TWO transformers
\* late:  the first codemod reads every file and changes none of them, the second one has changes (whatever the first
\*        one kept about a file must not stand in for the file later)
Static  == {"badutf8", "badutf8comment", "nul", "syntax", "empty"}   \* badutf8comment: the undecodable byte sits in a trailing comment only
Dynamic == {"vanish", "raise", "malformedTree", "raiseAtNodeEarly", "raiseAtNodeMid", "raiseAtNodeLate", "raiseInLaterTransformer"}
\* raiseInLaterTransformer: the second transformer of a pipeline raises after the first one has changed the tree   \* malformedTree: the transformer returns a tree whose code cannot be generated;   \* the j-th visited node: 2nd, 25th, the first one after a change was recorded
NF == 3
NC == 2

VARIABLES f, exp, st
\* a placement: [pipe, faults : set of [kind, ci, fj]]
Fault(k, ci, fj) == [kind |-> k, ci |-> ci, fj |-> fj]
OneFault == {Fault(k, 1, j) : k \in Static, j \in 1..NF} \cup {Fault(k, i, j) : k \in Dynamic, i \in 1..NC, j \in 1..NF}

FaultSets(maxFaults) ==
  {{a} : a \in OneFault} \cup
  (IF maxFaults >= 2 THEN UNION {{{a, b} : b \in {c \in OneFault : c.fj # a.fj}} : a \in OneFault} ELSE {})   \* at most one per file

WellPlaced(p, F) ==
  \A x \in F : ((x.kind = "raiseInLaterTransformer") => (p = "multi" /\ x.ci = 1))
              /\ ((p = "late") => (x.kind \in {"vanish", "raise", "badutf8", "syntax"}))
Placements(maxFaults) == {q \in {[pipe |-> p, faults |-> F] : p \in Pipes, F \in FaultSets(maxFaults)} : WellPlaced(q.pipe, q.faults)}

\* does a codemod of this pipeline select a file whose bytes are bad?  A rule-detected codemod only selects files in
\* which its rule reported something, and the rule engine may or may not report in a file it cannot parse: don't care.
SelectsBadFile(pipe) == pipe \in {"plain", "sast", "sast2", "multi", "late"}

MustFail(p) ==
  UNION {
    IF x.kind \in {"badutf8", "badutf8comment", "nul", "syntax"} THEN
         IF SelectsBadFile(p.pipe) THEN {<<i, x.fj>> : i \in 1..NC} ELSE {}
    ELSE IF x.kind = "empty" THEN {}                     \* an empty file is a valid (empty) module: nothing to fail
    ELSE IF x.kind = "vanish" /\ ~SelectsBadFile(p.pipe) THEN {}   \* the rule engine no longer sees the file: don't care
    ELSE {<<x.ci, x.fj>>}
    : x \in p.faults}

\* files that the faulted step must leave byte-identical (a vanished file has no bytes to compare)
Intact(p) == {x.fj : x \in {y \in p.faults : y.kind # "vanish"}}

Init == f \in Placements(MaxFaults) /\ st = "init" /\ exp = [mustFail |-> {}, intact |-> {}]
Next == st = "init" /\ st' = "done" /\ exp' = [mustFail |-> MustFail(f), intact |-> Intact(f)] /\ UNCHANGED f
Spec == Init /\ [][Next]_<<f, exp, st>>

LemmaMustFailOnlyFaulted == \A m \in MustFail(f) : \E x \in f.faults : x.fj = m[2]
=============================================================================
