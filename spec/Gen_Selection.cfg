SPECIFICATION Spec
INVARIANT RefNoDup
INVARIANT RefOrdered
INVARIANT RefEligible
INVARIANT RefNonVacuous
INVARIANT RefModeFromInputs
CHECK_DEADLOCK FALSE
