SPECIFICATION Spec
INVARIANT RefNoDup
INVARIANT RefOrdered
INVARIANT RefEligible
INVARIANT RefNonVacuous
CHECK_DEADLOCK FALSE
