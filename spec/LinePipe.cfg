SPECIFICATION Spec
CONSTANT MaxLines = 3
INVARIANT LemmaEditedMatch
INVARIANT LemmaSastNeedsFinding
CHECK_DEADLOCK FALSE
