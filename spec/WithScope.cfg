SPECIFICATION Spec
CONSTANT MaxLen = 4
INVARIANT C08_ExtentPreservesIffCoversLastRead
INVARIANT LemmaMentionCovers
CHECK_DEADLOCK FALSE
