SPECIFICATION Spec
CONSTANTS
  Files <- MCFiles
  Manifests = {"m1"}
  Queue <- MCQueue
  MaxW = 2
  MaxVer = 2
  Bug = "none"
INVARIANT TypeOK
INVARIANT C03_Composes
INVARIANT C03_RealChanges
INVARIANT C04_DryRunFrozen
INVARIANT C10_FailedUntouched
INVARIANT C11_WorkerBound
INVARIANT C11_MergeDeterministic
INVARIANT C15_ReportShape
INVARIANT C15_ReportComplete
INVARIANT C17_RunsOnceInOrder
INVARIANT C20_ExitStatus
PROPERTY Terminates
