SPECIFICATION Spec
CONSTANTS
  VariantCombine = "repaired"
  VariantInvert = "repaired"
  TupleNames = FALSE
  Depth = 2
  SampleD = 0
INVARIANT C08_RewritePreservesBehaviour
CHECK_DEADLOCK FALSE
