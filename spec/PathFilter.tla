----------------------------- MODULE PathFilter -----------------------------
(***************************************************************************)
(* C05 / C13 - which files, and which lines of a file, a run may and must  *)
(* touch; written from the property statements.                            *)
(*                                                                         *)
(* A file is a record                                                      *)
(*   [rel      code points of the path relative to the target,             *)
(*    isPy     BOOLEAN,                                                    *)
(*    symlink  BOOLEAN  (the entry is, or is reached through, a symlink),  *)
(*    pinned   BOOLEAN  under a root-level test/build/virtualenv/VCS dir:  *)
(*                      what "excluded by default" must at least mean,     *)
(*    dontcare BOOLEAN  matched only by further default-exclude entries    *)
(*                      the statement does not name: either outcome ok]    *)
(* Patterns are code-point sequences, possibly with a `:line` suffix.      *)
(***************************************************************************)
EXTENDS Globs

AnyMatch(pats, rel, fileLevelOnly) ==
  \E k \in 1..Len(pats) :
     IF fileLevelOnly THEN ~HasLine(pats[k]) /\ GlobMatch(pats[k], rel)
     ELSE GlobMatch(FilePart(pats[k]), rel)

\* mode "ff" (find-and-fix) or "sast"
\* MAY the run modify f ?
May(f, mode, inc, exc) ==
  /\ ~f.symlink
  /\ IF inc = <<>> THEN f.isPy ELSE AnyMatch(inc, f.rel, FALSE)        \* default include: Python files
  /\ ~AnyMatch(exc, f.rel, TRUE)                                       \* a `:line` pattern never excludes a file
  /\ (mode = "ff" /\ exc = <<>>) => ~f.pinned                          \* default excludes (find-and-fix only)

\* MUST the run fix f (given that f holds a fixable construct) ?
Must(f, mode, inc, exc) ==
  /\ May(f, mode, inc, exc)
  /\ f.isPy                                         \* only Python sources are "fixable"
  /\ mode = "ff" => ~(f.pinned \/ f.dontcare)       \* default excludes replaced or extended by a user list,
                                                    \* and entries the statement does not name: either way

(* ---- C13: line level ---- *)
\* lines named by the patterns of a list whose file part matches the path relative to the target
LinesOf(pats, rel) ==
  {LinePart(pats[k]) : k \in {j \in 1..Len(pats) : HasLine(pats[j]) /\ GlobMatch(FilePart(pats[j]), rel)}}

\* the same, also accepting the absolute spelling of the path (absroot = code points of the target directory + "/")
LinesOfAbs(pats, rel, absroot) ==
  {LinePart(pats[k]) : k \in {j \in 1..Len(pats) :
       HasLine(pats[j]) /\ (GlobMatch(FilePart(pats[j]), rel) \/ GlobMatch(FilePart(pats[j]), absroot \o rel))}}

\* a construct on `line` may be rewritten iff it is not excluded and, when lines are included, it is one of them
Permitted(line, I, E) == (I = {} \/ line \in I) /\ line \notin E
=============================================================================
