------------------------------- MODULE XmlDocs -------------------------------
(***************************************************************************)
(* C19 (XML half) - abstract XML documents and the reference edit.         *)
(* A document is a sequence of items under a root element; an item is a    *)
(* leaf or an element with a short sequence of leaves inside.              *)
(*   leaf kinds: "t" target element (attribute subset), "o" other element, *)
(*   "n" namespaced element, "x" text with entity references, "c" CDATA    *)
(*   section, "m" comment, "p" processing instruction, "r" text and an     *)
(*   attribute value with carriage-return / line-feed / tab references,    *)
(*   "e" text with a non-ASCII character (the harness stores every second  *)
(*   document holding one in ISO-8859-1, declared in the XML declaration)  *)
(* DOCTYPE forms: none, plain, SYSTEM, PUBLIC, and "subset": an internal   *)
(* subset declaring a default attribute for the "o" elements (the parser   *)
(* reports it on every such element, so it must still be seen afterwards). *)
(* The edit of the attribute transformer: every SELECTED target element    *)
(* gets the mapped attributes (a := "X", c := "N"), nothing else changes.  *)
(* The edit of the new-element transformer: every target element gets one  *)
(* new last child.  Selected = all targets when no results are given,      *)
(* else the targets on whose line a finding is reported.                   *)
(***************************************************************************)
EXTENDS Naturals, Sequences, FiniteSets, TLC, Randomization

CONSTANTS MaxTop, Sample

VARIABLES doc, exp, st

AttrSets == SUBSET {"a", "b"}
Leaves == {[k |-> "t", attrs |-> A, kids |-> <<>>] : A \in AttrSets}
          \cup {[k |-> x, attrs |-> {}, kids |-> <<>>] : x \in {"o", "n", "x", "c", "m", "p", "mx", "r", "e"}}      \* mx: a comment inside mixed content (text on both sides); r: text and attribute with &#13; / &#10; / &#9; character references
Nested == {[k |-> kk, attrs |-> A, kids |-> ks] : kk \in {"t", "o"}, A \in {{}, {"a"}},
             ks \in UNION {[1..n -> Leaves] : n \in 1..2}}
Items == Leaves \cup Nested

\* which targets (numbered in document order) carry a finding: "all" = no results given
Docs ==
  LET flat == UNION {[1..n -> Leaves] : n \in 1..MaxTop}
      deep == RandomSubset(Sample, [1..2 -> Items])
  IN flat \cup deep

Scenarios == {[items |-> x, kind |-> kd, doctype |-> dt, sel |-> s] :
                x \in Docs, kd \in {"attr", "newel"}, dt \in {"none", "plain", "system", "public", "subset"}, s \in {"all", "first", "none", "empty"}}      \* "empty": the detector ran and found nothing (an empty result list)

\* targets in document order as paths <<i>> or <<i, j>>
Targets(items) ==
  LET top == {<<i>> : i \in {j \in 1..Len(items) : items[j].k = "t"}}
      inner == UNION {{<<i, j>> : j \in {q \in 1..Len(items[i].kids) : items[i].kids[q].k = "t"}} : i \in 1..Len(items)}
  IN top \cup inner

Before(p, q) == IF p[1] # q[1] THEN p[1] < q[1] ELSE Len(p) < Len(q) \/ (Len(p) = Len(q) /\ Len(p) = 2 /\ p[2] < q[2])
First(S) == CHOOSE p \in S : \A q \in S : q = p \/ Before(p, q)

Selected(s) ==
  LET T == Targets(s.items) IN
  IF s.kind = "newel" THEN T                         \* the new-element transformer is used without results
  ELSE CASE s.sel = "all" -> T [] s.sel \in {"none", "empty"} -> {} [] s.sel = "first" -> IF T = {} THEN {} ELSE {First(T)}

EditLeaf(n, kind) ==
  IF kind = "attr" THEN [n EXCEPT !.attrs = (@ \ {"a"}) \cup {"a!", "c!"}]     \* a! / c!: the mapped values
  ELSE [n EXCEPT !.kids = Append(@, [k |-> "added", attrs |-> {}, kids |-> <<>>])]

Edit(s) ==
  LET sel == Selected(s) IN
  [i \in 1..Len(s.items) |->
     LET it == IF <<i>> \in sel THEN EditLeaf(s.items[i], s.kind) ELSE s.items[i]
     IN [it EXCEPT !.kids = [j \in 1..Len(s.items[i].kids) |->
                               IF <<i, j>> \in sel THEN EditLeaf(s.items[i].kids[j], s.kind) ELSE s.items[i].kids[j]]
                            \o SubSeq(it.kids, Len(s.items[i].kids) + 1, Len(it.kids))]]

Init == doc \in Scenarios /\ st = "init" /\ exp = [items |-> <<>>, nchanges |-> 0]
Next == /\ st = "init" /\ st' = "done" /\ UNCHANGED doc
        /\ exp' = [items |-> Edit(doc), nchanges |-> Cardinality(Selected(doc))]
Spec == Init /\ [][Next]_<<doc, exp, st>>

LemmaSameLength == st = "done" => Len(exp.items) = Len(doc.items)
LemmaNothingSelectedNothingChanges == (st = "done" /\ Selected(doc) = {}) => exp.items = doc.items
=============================================================================
