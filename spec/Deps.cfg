SPECIFICATION Spec
INVARIANT LemmaSatisfiable
INVARIANT LemmaSecondRunAddsNothing
CHECK_DEADLOCK FALSE
