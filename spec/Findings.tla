------------------------------ MODULE Findings ------------------------------
(***************************************************************************)
(* C12 - what a codemod must see of the tool result files, written from    *)
(* the property statement.                                                 *)
(*                                                                         *)
(* A finding is a record [rule, file, id, loc] (loc = <<sl, sc, el, ec>>). *)
(* A result set is a function  <<rule, file>> |-> Seq(finding);  an absent *)
(* key means no finding.  Combining result sets is key-wise concatenation  *)
(* (a multiset union): nothing dropped, duplicated or overwritten.         *)
(***************************************************************************)
EXTENDS Naturals, Sequences, FiniteSets, SequencesExt, Bags

Get(a, k) == IF k \in DOMAIN a THEN a[k] ELSE <<>>

Merge2(a, b) == [k \in DOMAIN a \cup DOMAIN b |-> Get(a, k) \o Get(b, k)]

RECURSIVE MergeAll(_)
MergeAll(ss) == IF ss = <<>> THEN <<>> ELSE Merge2(MergeAll(Front(ss)), Last(ss))

\* group a sequence of findings by <<rule, file>>
Group(fs) ==
  LET keys == {<<fs[i].rule, fs[i].file>> : i \in 1..Len(fs)}
  IN  [k \in keys |-> SelectSeq(fs, LAMBDA f : <<f.rule, f.file>> = k)]

(* ---- Sonar: a document has an "issues" and a "hotspots" part, each absent, null, empty or a list ---- *)
\* entry: [kind, status, hasRange, rule, file, id, loc]
SonarOpen(e) == e.status \in {"OPEN", "TO_REVIEW"}
PartEntries(p) == IF p.shape = "list" THEN p.entries ELSE <<>>
ExtractSonar(doc) ==
  Group(SelectSeq(PartEntries(doc.issues) \o PartEntries(doc.hotspots),
                  LAMBDA e : SonarOpen(e) /\ e.hasRange))

(* ---- SARIF: a document is a sequence of runs [tool, results]; result: [rule, file, id, loc, hasRegion] ---- *)
\* the findings of `tool`'s own runs, with a location
ExtractSarif(doc, tool) ==
  Group(FlattenSeq([r \in 1..Len(doc) |->
          IF doc[r].tool = tool THEN SelectSeq(doc[r].results, LAMBDA x : x.hasRegion) ELSE <<>>]))

(* ---- DefectDojo: a document is a sequence of findings ---- *)
ExtractDojo(doc) == Group(doc)

(* ---- comparison is on multisets per key ---- *)
SeqToBag(s) == [x \in {s[i] : i \in 1..Len(s)} |-> Cardinality({i \in 1..Len(s) : s[i] = x})]
SameBags(a, b) ==
  \A k \in DOMAIN a \cup DOMAIN b : SeqToBag(Get(a, k)) = SeqToBag(Get(b, k))

(* ---- algebraic lemmas (checked by the generator) ---- *)
Total(a) == LET ks == DOMAIN a IN
            IF ks = {} THEN 0 ELSE
            LET RECURSIVE S(_)
                S(X) == IF X = {} THEN 0 ELSE LET k == CHOOSE k \in X : TRUE IN Len(a[k]) + S(X \ {k})
            IN S(ks)
=============================================================================
