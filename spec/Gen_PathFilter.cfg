SPECIFICATION Spec
INVARIANT MustImpliesMay
INVARIANT NoSymlinkEver
INVARIANT LineNeverExcludesFile
CHECK_DEADLOCK FALSE
