------------------------------ MODULE Gen_Lines ------------------------------
(***************************************************************************)
(* M2 generator for C13: one state per file of a batch project.  The       *)
(* harness lays out the batch (every subset of the candidate sites as      *)
(* excluded lines, as included lines, and combined; relative, globbed and  *)
(* absolute spelling) and hands over the real pattern lists of the run;    *)
(* TLC computes, with the reference semantics of PathFilter.tla applied to *)
(* the WHOLE lists, which sites of each file are permitted.                *)
(***************************************************************************)
EXTENDS PathFilter, LineData, TLC

VARIABLES k, exp, st

Init == k \in 1..Len(Files) /\ exp = {} /\ st = "init"
Step == /\ st = "init" /\ st' = "done" /\ UNCHANGED k
        /\ LET f == Files[k]
               I == LinesOfAbs(Inc, f.rel, AbsRoot)
               E == LinesOfAbs(Exc, f.rel, AbsRoot)
           IN exp' = {s \in {f.sites[i] : i \in 1..Len(f.sites)} : Permitted(s, I, E)}
Spec == Init /\ [][Step]_<<k, exp, st>>

\* sanity of the reference: without any pattern for a file everything is permitted
LemmaNoPatternAllPermitted ==
  st = "done" =>
    LET f == Files[k] IN
    (LinesOfAbs(Inc, f.rel, AbsRoot) = {} /\ LinesOfAbs(Exc, f.rel, AbsRoot) = {})
       => exp = {f.sites[i] : i \in 1..Len(f.sites)}
=============================================================================
