------------------------------ MODULE PoolAbs ------------------------------
(***************************************************************************)
(* Index abstraction of Pool.tla for an inductive-invariant check with     *)
(* Apalache: tasks are 1..N in input order, `next` of them have begun,     *)
(* `running` / `finished` partition 1..next, `delivered` results have been *)
(* handed over in input order.  N and W are symbolic (1..MaxN, 1..MaxW).   *)
(***************************************************************************)
EXTENDS Integers, FiniteSets

CONSTANTS
  \* @type: Int;
  N,
  \* @type: Int;
  W

VARIABLES
  \* @type: Int;
  next,
  \* @type: Set(Int);
  running,
  \* @type: Set(Int);
  finished,
  \* @type: Int;
  delivered

MaxN == 12

ConstInit == N \in 1..MaxN /\ W \in 1..MaxN

Init == next = 0 /\ running = {} /\ finished = {} /\ delivered = 0

Begin == /\ next < N /\ Cardinality(running) < W
         /\ next' = next + 1 /\ running' = running \union {next + 1}
         /\ UNCHANGED <<finished, delivered>>
End == \E t \in running :
         /\ running' = running \ {t} /\ finished' = finished \union {t}
         /\ UNCHANGED <<next, delivered>>
Deliver == /\ next = N /\ running = {} /\ delivered < N
           /\ delivered' = delivered + 1
           /\ UNCHANGED <<next, running, finished>>
Next == Begin \/ End \/ Deliver

WorkerBound == Cardinality(running) <= W

IndInv ==
  /\ 0 <= next /\ next <= N
  /\ \A t \in running : 1 <= t /\ t <= next
  /\ \A t \in finished : 1 <= t /\ t <= next
  /\ running \intersect finished = {}
  /\ \A t \in 1..MaxN : (t <= next) => (t \in running \/ t \in finished)
  /\ Cardinality(running) <= W
  /\ 0 <= delivered /\ delivered <= N
  /\ (delivered > 0 => (next = N /\ running = {}))

IndInit ==
  /\ next \in 0..MaxN
  /\ running \in SUBSET (1..MaxN)
  /\ finished \in SUBSET (1..MaxN)
  /\ delivered \in 0..MaxN
  /\ IndInv
=============================================================================
