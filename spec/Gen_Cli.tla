------------------------------- MODULE Gen_Cli -------------------------------
(* M2 generator for C20: token sequences x environment -> documented exit status. *)
EXTENDS Cli, CliData, TLC

VARIABLES sc, exp

SeqsUpTo(n) == UNION {[1..k -> 1..Len(Tokens)] : k \in 0..n}
TokSeq(l) == [i \in 1..Len(l) |-> Tokens[l[i]]]

\* most behaviour needs a target directory: every pair of "interesting" tokens after (and before) a good directory
WithDir == {<<DirTok>> \o s : s \in UNION {[1..k -> Interesting] : k \in 1..2}}
           \cup {s \o <<DirTok>> : s \in [1..2 -> Interesting]}

Scenarios ==
  {[toks |-> s, env |-> "none"] : s \in SeqsUpTo(MaxLen) \cup ExtraSeqs \cup WithDir}
  \cup {[toks |-> s, env |-> e] : s \in SeqsUpTo(EnvLen) \cup EnvSeqs, e \in {"half", "both"}}

Init == sc \in Scenarios /\ exp = [exit |-> -1, report |-> FALSE]
Step == /\ exp.exit = -1
        /\ exp' = [exit |-> ExpectedExit(TokSeq(sc.toks), sc.env), report |-> ReportExpected(TokSeq(sc.toks), sc.env)]
        /\ UNCHANGED sc
Spec == Init /\ [][Step]_<<sc, exp>>

T == TokSeq(sc.toks)
L1 == LemmaRange(T, sc.env)
L2 == LemmaInfoFirst(T, sc.env)
L3 == LemmaFlagNeutral(T, sc.env)
L4 == LemmaTwoOnlyWithBadOutput(T, sc.env)
L5 == LemmaNoDirNoRun(T, sc.env)
L6 == exp.exit # -1 => (exp.report => exp.exit = 0)
=============================================================================
