-------------------------------- MODULE Cli --------------------------------
(***************************************************************************)
(* C20 - the exit status as a function of the argument vector and the      *)
(* environment, written from the property statement.                       *)
(*                                                                         *)
(* argv is a sequence of abstract tokens [k, v]:                           *)
(*   "info"    --list --describe --version --help      act when met -> 0   *)
(*   "bad"     invalid value / missing operand         error when met -> 3 *)
(*   "incl" / "excl"  --codemod-include / --codemod-exclude (conflict -> 3)*)
(*   "unknown" unrecognised option, extra positional   error at end   -> 3 *)
(*   "dir"     the target (v: "ok" | "missing"); a second one is "unknown" *)
(*   "output"  v: "ok" | "noparent" | "isdir" | "devfull"   (last wins)    *)
(*   "sarif" | "sonar" | "hotspots" | "dojo" | "contrast"                    *)
(*             v: "ok" | "missing" | "dup" | "two"                          *)
(*   "flag"    harmless option                                            *)
(*   "unser"   harmless option whose value is not valid UTF-8 (argv bytes  *)
(*             that the OS hands over as lone surrogates): the run works,  *)
(*             but the report - which quotes the command line - cannot be  *)
(*             serialised, i.e. cannot be written                          *)
(* env.ai: "none" | "half" | "both" (AI client configuration)              *)
(*                                                                         *)
(* Order of the conditions = the order in which the program can first know *)
(* them: arguments (3) -> directory (1) -> result files (1) -> AI config   *)
(* (3) -> [run] -> report (2) -> 0.                                        *)
(***************************************************************************)
EXTENDS Integers, Sequences, FiniteSets

St0 == [dir |-> "none", incl |-> FALSE, excl |-> FALSE, unknown |-> FALSE, unser |-> FALSE,
        output |-> "none", sarif |-> "none", sonar |-> "none", hotspots |-> "none", dojo |-> "none", contrast |-> "none"]

RECURSIVE Parse(_, _)
Parse(toks, st) ==
  IF toks = <<>> THEN
       IF st.unknown \/ st.dir = "none" THEN [exit |-> 3, st |-> st] ELSE [exit |-> 99, st |-> st]
  ELSE LET t == Head(toks)  r == Tail(toks) IN
       CASE t.k = "info"    -> [exit |-> 0, st |-> st]
         [] t.k = "bad"     -> [exit |-> 3, st |-> st]
         [] t.k = "incl"    -> IF st.excl THEN [exit |-> 3, st |-> st] ELSE Parse(r, [st EXCEPT !.incl = TRUE])
         [] t.k = "excl"    -> IF st.incl THEN [exit |-> 3, st |-> st] ELSE Parse(r, [st EXCEPT !.excl = TRUE])
         [] t.k = "unknown" -> Parse(r, [st EXCEPT !.unknown = TRUE])
         [] t.k = "dir"     -> IF st.dir = "none" THEN Parse(r, [st EXCEPT !.dir = t.v])
                               ELSE Parse(r, [st EXCEPT !.unknown = TRUE])
         [] t.k = "unser"   -> Parse(r, [st EXCEPT !.unser = TRUE])
         [] t.k = "output"  -> Parse(r, [st EXCEPT !.output = t.v])
         [] t.k = "sarif"   -> Parse(r, [st EXCEPT !.sarif = t.v])
         [] t.k = "sonar"   -> Parse(r, [st EXCEPT !.sonar = t.v])
         [] t.k = "hotspots" -> Parse(r, [st EXCEPT !.hotspots = t.v])
         [] t.k = "dojo"    -> Parse(r, [st EXCEPT !.dojo = t.v])
         [] t.k = "contrast" -> Parse(r, [st EXCEPT !.contrast = t.v])
         [] OTHER           -> Parse(r, st)

BadFile(v) == v \in {"missing", "dup"}

ExpectedExit(toks, env) ==
  LET p == Parse(toks, St0) IN
  IF p.exit # 99 THEN p.exit
  ELSE LET s == p.st IN
       IF s.dir = "missing" THEN 1
       ELSE IF BadFile(s.sarif) \/ BadFile(s.sonar) \/ BadFile(s.hotspots) \/ BadFile(s.dojo) \/ BadFile(s.contrast) THEN 1
       ELSE IF env = "half" THEN 3
       ELSE IF s.output \in {"noparent", "isdir", "devfull"} THEN 2      \* "ok", "devnull", "fifo": the report is delivered
       ELSE IF s.output # "none" /\ s.unser THEN 2                      \* the report cannot be serialised
       ELSE 0

\* does the run get as far as writing a report, and is the report then on disk?
ReportExpected(toks, env) ==
  LET p == Parse(toks, St0) IN
  p.exit = 99 /\ ExpectedExit(toks, env) = 0 /\ p.st.output = "ok" /\ ~p.st.unser

(* ---- lemmas on the reference (checked in every generator state) ---- *)
LemmaRange(toks, env)    == ExpectedExit(toks, env) \in {0, 1, 2, 3}
LemmaInfoFirst(toks, env) == (toks # <<>> /\ Head(toks).k = "info") => ExpectedExit(toks, env) = 0
LemmaFlagNeutral(toks, env) ==   \* appending a harmless flag never changes the status
  ExpectedExit(Append(toks, [k |-> "flag", v |-> "x"]), env) = ExpectedExit(toks, env)
LemmaTwoOnlyWithBadOutput(toks, env) ==
  ExpectedExit(toks, env) = 2 => \E i \in 1..Len(toks) : (toks[i].k = "output" /\ toks[i].v # "ok") \/ toks[i].k = "unser"
LemmaNoDirNoRun(toks, env) ==
  (~\E i \in 1..Len(toks) : toks[i].k = "dir") => ExpectedExit(toks, env) \in {0, 3}
=============================================================================
