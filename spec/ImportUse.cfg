SPECIFICATION Spec
CONSTANT RuleVariant = "tree"
INVARIANT C02_RemovesOnlyUnusedImports
INVARIANT RemovesWhatIsUnused
CHECK_DEADLOCK FALSE
