--------------------------- MODULE Gen_Selection ---------------------------
(***************************************************************************)
(* M2 generator for C17: every initial state is one selection scenario;    *)
(* the single step computes the set of acceptable outcomes with the        *)
(* reference semantics of Selection.tla.  The harness replays each         *)
(* scenario through the real CodemodRegistry / CLI and compares.           *)
(* Data (the registry as loaded from the working tree, the pattern pool    *)
(* built from it by rule, the default exclusions) come from SelData.tla,   *)
(* which the harness writes on every run.                                  *)
(***************************************************************************)
EXTENDS Selection, SelData, TLC

VARIABLES sc, exp

Reg == [k \in 1..Len(RegIds) |-> [id |-> RegIds[k], origin |-> RegOrigins[k]]]

AllLists == UNION {[1..n -> 1..Len(Pats)] : n \in 0..MaxLen} \cup ExtraLists

\* the input kind that produces the mode: all of them for short lists (end-to-end runs), a representative otherwise
KindsFor(s, l) == IF Len(l) <= 1 THEN {k \in InputKinds : SastMode(k) = s}
                  ELSE IF s THEN {"sonarIssues"} ELSE {"none"}

Scenarios ==
  UNION {{[kind |-> k, list |-> l, sast |-> s, inp |-> i] : i \in KindsFor(s, l)} :
            k \in {"inc", "exc"}, l \in AllLists, s \in BOOLEAN}

PatSeq(l) == [i \in 1..Len(l) |-> Pats[l[i]]]

IdxOf(id) == CHOOSE k \in 1..Len(RegIds) : RegIds[k] = id
IdxSeq(s) == [i \in 1..Len(s) |-> IdxOf(s[i])]

Expected(s) ==
  LET inc == IF s.kind = "inc" THEN PatSeq(s.list) ELSE <<>>
      exc == IF s.kind = "exc" THEN PatSeq(s.list) ELSE <<>>
  IN {IdxSeq(r) : r \in Acceptable(inc, exc, Reg, s.sast, DefExc)}

Init == sc \in Scenarios /\ exp = {}
Step == exp = {} /\ exp' = Expected(sc) /\ UNCHANGED sc
Spec == Init /\ [][Step]_<<sc, exp>>

(* lemmas on the reference: hold in every state *)
RefNoDup   == \A r \in exp : \A i, j \in 1..Len(r) : r[i] = r[j] => i = j
RefOrdered == (sc.kind = "exc" \/ sc.list = <<>>) =>
                 \A r \in exp : \A i, j \in 1..Len(r) : i < j => r[i] < r[j]
RefEligible == (sc.kind = "exc" \/ sc.list = <<>>) =>
                 \A r \in exp : \A i \in 1..Len(r) : sc.sast <=> (RegOrigins[r[i]] # "pixee")
RefNonVacuous == exp # {} \/ TLCGet("level") = 1
RefModeFromInputs == sc.sast = SastMode(sc.inp)
=============================================================================
