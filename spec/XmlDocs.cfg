SPECIFICATION Spec
CONSTANTS
  MaxTop = 2
  Sample = 40
INVARIANT LemmaSameLength
INVARIANT LemmaNothingSelectedNothingChanges
CHECK_DEADLOCK FALSE
