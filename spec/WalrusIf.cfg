SPECIFICATION Spec
CONSTANT RuleVariant = "tree"
INVARIANT C08_DropsOnlyUnreadBindings
CHECK_DEADLOCK FALSE
