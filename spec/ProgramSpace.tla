---------------------------- MODULE ProgramSpace ----------------------------
(***************************************************************************)
(* The feature model of the run-level scenarios (C03, C04, C09, C10, C15): *)
(* which source program (each holds triggers of several codemods, some on  *)
(* the same line), in which layout / encoding variant, with which          *)
(* dependency manifests, which sequence of codemods, dry-run or not, how   *)
(* many workers.  TLC enumerates the vectors that satisfy the              *)
(* compatibility constraints; the harness makes each concrete and the      *)
(* recorded run is judged by Trace_Run.  The model also predicts what the  *)
(* abstract run must look like (which codemods must report a changeset,    *)
(* whether a manifest must be updated), which the harness passes on as     *)
(* expectations.                                                           *)
(***************************************************************************)
EXTENDS Naturals, Sequences, FiniteSets, ProgData, TLC

VARIABLES v, st

\* all sequences without repetition of length 1..n over the elements of s
RECURSIVE Perms(_, _)
Perms(S, n) ==
  IF n = 0 THEN {<<>>}
  ELSE {<<>>} \cup UNION {{<<x>> \o p : p \in Perms(S \ {x}, n - 1)} : x \in S}

Seqs(p) == Perms({Trig[p][i] : i \in 1..Len(Trig[p])}, MaxSeq) \ {<<>>}

HasDep(q) == \E i \in 1..Len(q) : q[i] \in DepAdding

SeqsOf == [p \in Programs |-> Seqs(p)]

AllowedManifests(q, l) ==
  IF ~HasDep(q) THEN {"none"}                          \* manifests only matter when a dependency is needed
  ELSE IF l \in {"lf", "crlf", "bom"} THEN Manifests ELSE Manifests \cap {"none", "requirements"}

AllowedWorkers(l) == IF l = "lf" THEN {1, 3} ELSE {1}  \* workers are C11's business; one non-trivial value suffices

Init ==
  /\ st = "init"
  /\ \E p \in Programs, l \in Layouts, d \in BOOLEAN :
       \E q \in SeqsOf[p] :
          \E m \in AllowedManifests(q, l), w \in AllowedWorkers(l) :
             v = [program |-> p, layout |-> l, manifest |-> m, queue |-> q, dryRun |-> d, workers |-> w]
Next == st = "init" /\ st' = "done" /\ UNCHANGED v
Spec == Init /\ [][Next]_<<v, st>>

\* predictions used as expectations
MustReportChange(x) == {x.queue[i] : i \in 1..Len(x.queue)}      \* every codemod of the queue has a trigger in app.py
MustUpdateManifest(x) == HasDep(x.queue) /\ x.manifest # "none"
=============================================================================
