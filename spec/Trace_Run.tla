----------------------------- MODULE Trace_Run -----------------------------
(***************************************************************************)
(* M3: validation of recorded executions of the real codemodder against    *)
(* Run.tla.  A batch of traces is read from JSON (env TRACE_FILE); `tid`   *)
(* selects one.  Every event is bound to the Run action of the same name   *)
(* with the logged values as arguments (A_do); a failed design guard       *)
(* (A_ok, clause by clause) or a failed property invariant in the state    *)
(* reached is added to `verdict`, so one trace reports every clause it     *)
(* breaks and checking continues to the end of the trace.                  *)
(* A trace is accepted iff it is consumed completely with an empty         *)
(* verdict: INVARIANT TraceAccepted.                                       *)
(*                                                                         *)
(* Scenario expectations computed by the generator specs (which files and  *)
(* sites may / must change, which exit status is owed) travel in the       *)
(* RunStart event and are checked here against what was observed.          *)
(***************************************************************************)
EXTENDS Run, Json, IOUtils, TLCExt

VARIABLES tid, l, verdict, expect, changed, sites, env

tvars == <<vars, tid, l, verdict, expect, changed, sites, env>>

Traces == JsonDeserialize(IOEnv.TRACE_FILE)

Tr  == Traces[tid].events
Ev  == Tr[l]
IsEv(k) == l <= Len(Tr) /\ Ev.ev = k

\* add the names of failed clauses; checks is a sequence of <<holds, name>>
Fails(checks) == {checks[i][2] : i \in {j \in 1..Len(checks) : ~checks[j][1]}}

\* the property invariants of Run, evaluated in the state just reached
InvFails ==
  Fails(<< <<C03_ComposesExcept(env), "inv:C03_Composes">>,
           <<C03_RealChanges,     "inv:C03_RealChanges">>,
           <<C04_DryRunFrozenExcept(env), "inv:C04_DryRunFrozen">>,
           <<C10_FailedUntouched, "inv:C10_FailedUntouched">>,
           <<C11_WorkerBound,     "inv:C11_WorkerBound">>,
           <<C15_ReportShape,     "inv:C15_ReportShape">>,
           <<C17_RunsOnceInOrder, "inv:C17_RunsOnceInOrder">>,
           <<C20_ExitStatus,      "inv:C20_ExitStatus">> >>)

Advance(guardFails) ==
  /\ l' = l + 1 /\ tid' = tid /\ env' = env
  /\ verdict' = verdict \cup guardFails \cup InvFails'

NoExpect == [files |-> FALSE, mayChange |-> <<>>, mustChange |-> <<>>,
             sites |-> FALSE, siteMay |-> <<>>, siteMust |-> <<>>, exit |-> -1,
             sel |-> FALSE, queues |-> <<>>, faults |-> FALSE, mustFail |-> <<>>,
             deps |-> FALSE, cand |-> <<>>, mustOne |-> FALSE, frozen |-> FALSE]

TraceInit ==
  /\ tid \in 1..Len(Traces) /\ l = 1 /\ verdict = {} /\ expect = NoExpect /\ changed = {} /\ sites = <<>> /\ env = {}
  /\ pc = "init" /\ cfg = [dryRun |-> FALSE, maxWorkers |-> 1, output |-> FALSE]
  /\ files = <<>> /\ queue = <<>> /\ started = <<>> /\ cur = NoC
  /\ disk = <<>> /\ orig = <<>> /\ inflight = {} /\ done = <<>> /\ agg = <<>>
  /\ merged = FALSE /\ report = <<>> /\ rstate = "none" /\ exit = -1


(* ------------------------------------------------------------------------ *)
TrRunStart ==
  /\ IsEv("RunStart")
  /\ RunStart_do(Ev.cfg, Ev.files, Ev.disk)
  /\ expect' = Ev.expect /\ UNCHANGED changed
  /\ sites' = [f \in DOMAIN Ev.disk |-> {}]
  /\ Advance(Fails(<< <<RunStart_ok(Ev.cfg, Ev.files, Ev.disk), "RunStart:guard">> >>))

TrSelected ==
  /\ IsEv("Selected")
  /\ Select_do(Ev.ids)
  /\ UNCHANGED <<expect, changed, sites>>
  /\ Advance(Fails(<< <<pc = "args", "Selected:phase">>,
                      <<expect.sel => \E i \in 1..Len(expect.queues) : expect.queues[i] = Ev.ids, "Selected:differs-from-reference-selection">>,
                      <<\A i, j \in 1..Len(Ev.ids) : Ev.ids[i] = Ev.ids[j] => i = j, "Selected:codemod-listed-twice">> >>))

TrCodemodStart ==
  /\ IsEv("CodemodStart")
  /\ CodemodStart_do(Ev.c)
  /\ UNCHANGED <<expect, changed, sites>>
  /\ Advance(Fails(<< <<pc = "loop" /\ cur = NoC, "CodemodStart:phase">>,
                      <<Len(started) < Len(queue) /\ Ev.c = queue[Len(started) + 1], "CodemodStart:not-next-in-queue">> >>))

TrFileBegin ==
  /\ IsEv("FileBegin")
  /\ Begin_do(Ev.f)
  /\ UNCHANGED <<expect, changed, sites>>
  /\ Advance(Fails(<< <<pc = "pool" /\ ~merged, "FileBegin:phase">>,
                      <<Ev.f \in DOMAIN disk, "FileBegin:unknown-file">>,
                      <<Ev.f \notin inflight, "FileBegin:already-in-flight">>,
                      <<Ev.f \in DOMAIN disk => done[Ev.f].outcome = "none", "FileBegin:processed-twice">>,
                      <<Cardinality(inflight) < cfg.maxWorkers, "FileBegin:worker-bound">>,
                      <<Ev.pre = disk[Ev.f], "FileBegin:changed-behind-the-pipeline">> >>))

SiteMayOf(f)  == IF f \in DOMAIN expect.siteMay  THEN ToSet(expect.siteMay[f])  ELSE {}
SiteMustOf(f) == IF f \in DOMAIN expect.siteMust THEN ToSet(expect.siteMust[f]) ELSE {}

TrFileEnd ==
  /\ IsEv("FileEnd")
  /\ LET e == Ev IN
     /\ End_do(e.f, e.o, e.new, e.post)
     /\ changed' = IF e.post # disk[e.f] THEN changed \cup {e.f} ELSE changed
     /\ sites' = [sites EXCEPT ![e.f] = @ \cup ToSet(e.sites)]
     /\ UNCHANGED expect
     /\ Advance(Fails(<<
          <<pc = "pool" /\ e.f \in inflight, "FileEnd:not-in-flight">>,
          <<e.o \in Outcomes, "FileEnd:exception-escaped-the-file-step">>,
          <<e.o = "changed" => e.new # -1, "FileEnd:diff-does-not-apply-to-previous-content">>,
          <<e.o = "changed" => e.new # disk[e.f], "FileEnd:changeset-without-change">>,
          <<e.o # "changed" => e.new = disk[e.f], "FileEnd:new-version-without-changeset">>,
          <<(e.o = "changed" /\ ~cfg.dryRun /\ e.new # -1) => e.post = e.new, "FileEnd:disk-differs-from-diff">>,
          <<(e.o # "changed" \/ cfg.dryRun) => e.post = disk[e.f],
             IF cfg.dryRun THEN "FileEnd:dry-run-wrote" ELSE IF e.o = "failed" THEN "FileEnd:failed-file-modified" ELSE "FileEnd:silent-write">>,
          <<e.o = "changed" => (e.nchanges >= 1 /\ e.linesOk /\ e.descOk /\ e.pathOk), "FileEnd:malformed-changeset">>,
          <<e.o = "failed" => e.nchangesets = 0, "FileEnd:failed-and-changed">>,
          <<(expect.faults /\ \E i \in 1..Len(expect.mustFail) : expect.mustFail[i].c = cur /\ expect.mustFail[i].f = e.f)
               => e.o = "failed", "FileEnd:unprocessable-file-not-reported-failed">>,
          <<e.o = "failed" => e.unfixedAll, "FileEnd:findings-of-failed-file-not-reported-unfixed">>,
          <<e.findingsOk, "FileEnd:change-entry-carries-wrong-findings">>,
          <<e.parsesOk, "FileEnd:rewritten-file-no-longer-parses">>,
          <<e.namesOk, "FileEnd:rewrite-introduced-an-unresolved-name">>,
          <<e.bagOk, "FileEnd:rewrite-changed-more-than-the-documented-edit">>,
          <<expect.frozen => e.o # "changed", "FileEnd:second-run-reports-a-change">>,
          <<expect.frozen => e.post = disk[e.f], "FileEnd:second-run-modified-a-file">>,
          <<e.unfixedOk, "FileEnd:unfixed-finding-that-was-not-reported">>,
          <<(expect.files /\ e.o = "changed") => e.f \in ToSet(expect.mayChange), "FileEnd:file-not-selected-was-changed">>,
          <<(expect.sites /\ e.o = "changed") => ToSet(e.sites) \subseteq SiteMayOf(e.f), "FileEnd:site-not-permitted-was-rewritten">>,
          <<(expect.sites /\ e.o = "changed") => ToSet(e.clines) \subseteq SiteMayOf(e.f), "FileEnd:change-entry-for-unpermitted-line">>,
          <<(expect.sites /\ e.o = "changed") => ToSet(e.sites) \subseteq ToSet(e.clines), "FileEnd:rewritten-line-without-change-entry">>
        >>))

TrMerge ==
  /\ IsEv("Merge")
  /\ Merge_do(Ev.changed, Ev.failed)
  /\ UNCHANGED <<expect, changed, sites>>
  /\ Advance(Fails(<< <<pc = "pool" /\ inflight = {} /\ ~merged, "Merge:phase">>,
                      <<ToSet(Ev.changed) = ToSet(ChangedNow), "Merge:changesets-lost-or-invented">>,
                      <<Ev.changed = ChangedNow, "Merge:not-in-input-order">>,
                      <<Ev.failed = FailedNow, "Merge:failures-differ">> >>))

TrCodemodEnd ==
  /\ IsEv("CodemodEnd")
  /\ CodemodEnd_do(Ev.c)
  /\ UNCHANGED <<expect, changed, sites>>
  /\ Advance(Fails(<< <<pc = "pool" /\ Ev.c = cur, "CodemodEnd:phase">>,
                      <<inflight = {}, "CodemodEnd:files-still-in-flight">>,
                      <<Ev.err = "none", "CodemodEnd:exception-escaped-the-codemod">>,
                      <<merged \/ \A f \in DOMAIN done : done[f].outcome = "none", "CodemodEnd:results-never-merged">> >>))

TrDeps ==
  /\ IsEv("Deps")
  /\ LET e == Ev IN
     /\ Deps_do(e.c, e.store, e.new, e.post)
     /\ changed' = IF e.store # NoC /\ e.post # disk[e.store] THEN changed \cup {e.store} ELSE changed
     /\ UNCHANGED <<expect, sites>>
     /\ Advance(Fails(<<
          <<pc = "deps" /\ e.c = cur, "Deps:phase">>,
          <<e.store # NoC => e.store \in DOMAIN disk, "Deps:unknown-manifest">>,
          <<e.store # NoC => e.new # -1, "Deps:diff-does-not-apply-to-previous-content">>,
          <<(e.store # NoC /\ e.store \in DOMAIN disk) => e.new # disk[e.store], "Deps:changeset-without-change">>,
          <<(e.store # NoC /\ e.store \in DOMAIN disk /\ ~cfg.dryRun /\ e.new # -1) => e.post = e.new, "Deps:disk-differs-from-diff">>,
          <<(e.store # NoC /\ e.store \in DOMAIN disk /\ cfg.dryRun) => e.post = disk[e.store], "Deps:dry-run-wrote">>,
          <<e.othersUntouched, "Deps:more-than-one-manifest-touched">>,
          <<e.shapeOk, "Deps:malformed-changeset">>,
          <<(expect.deps /\ e.store # NoC) => e.store \in ToSet(expect.cand), "Deps:manifest-that-declares-the-package-or-cannot-take-it-was-changed">>,
          \* (once a manifest of the run has taken the package, later codemods needing it have nothing to add)
          <<(expect.deps /\ expect.mustOne /\ e.wanted /\ ToSet(expect.cand) \cap changed = {}) => e.store # NoC,
             "Deps:no-manifest-updated-although-one-could-be">>,
          <<e.parsesOk, "Deps:manifest-no-longer-parses">>,
          <<e.keptOk, "Deps:declared-requirement-or-comment-lost">>,
          <<e.addedOk, "Deps:needed-requirement-not-added-exactly-once">>,
          <<e.err = "none", "Deps:exception-escaped">> >>))

TrReportBuilt ==
  /\ IsEv("ReportBuilt")
  /\ ReportBuilt_do(Ev.results)
  /\ UNCHANGED <<expect, changed, sites>>
  /\ Advance(Fails(<< <<pc = "loop" /\ cur = NoC /\ rstate = "none", "ReportBuilt:phase">>,
                      <<started = queue \/ started = <<>>, "ReportBuilt:selected-codemod-never-ran">>,
                      <<Len(Ev.results) = Len(queue), "ReportBuilt:result-count">>,
                      <<Ev.results = BuildReport, "ReportBuilt:differs-from-what-the-run-did">>,
                      <<Ev.schemaOk, "ReportBuilt:schema">>,
                      <<Ev.shapeOk, "ReportBuilt:shape">>,
                      <<Ev.metaOk, "ReportBuilt:run-section-does-not-describe-this-invocation">> >>))

TrReportWritten ==
  /\ IsEv("ReportWritten")
  /\ ReportWritten_do(Ev.rc)
  /\ UNCHANGED <<expect, changed, sites>>
  /\ Advance(Fails(<< <<pc = "report" /\ rstate = "built", "ReportWritten:phase">>,
                      <<Ev.rc \in {0, 2}, "ReportWritten:status">>,
                      <<(Ev.rc = 0) = Ev.exists, "ReportWritten:status-disagrees-with-file">> >>))

Completed == pc = "written" \/ (pc = "loop" /\ cur = NoC /\ ~cfg.output /\ (started = queue \/ started = <<>>))

TrRunEnd ==
  /\ IsEv("RunEnd")
  /\ LET e == Ev IN
     /\ RunEnd_do(e.exit, e.disk)
     /\ UNCHANGED <<expect, sites>>
     /\ changed' = changed \cup {f \in DOMAIN disk \cap DOMAIN e.disk : e.disk[f] # disk[f]}
     /\ Advance(Fails(<<
          <<Completed \/ pc \in {"init", "args"}, "RunEnd:run-stopped-midway">>,
          <<Completed => e.exit = CompletedExit, "RunEnd:exit-status-of-completed-run">>,
          <<(~Completed /\ pc \in {"init", "args"}) => e.exit \in {0, 1, 3}, "RunEnd:exit-status-of-early-exit">>,
          <<expect.exit # -1 => e.exit = expect.exit, "RunEnd:exit-status-differs-from-documented">>,
          <<e.exit # 0 => ~e.reportExists, "RunEnd:nonzero-exit-with-report-written">>,
          <<e.exc = "none", "RunEnd:uncaught-exception">>,
          <<DOMAIN e.disk = DOMAIN disk /\ e.disk = disk, "RunEnd:tree-changed-behind-the-pipeline">>,
          <<e.outsideUnchanged, "RunEnd:outside-of-target-modified">>,
          <<(expect.files /\ Completed) => ToSet(expect.mustChange) \subseteq changed, "RunEnd:selected-file-with-trigger-not-fixed">>,
          <<(expect.files /\ Completed) => changed \subseteq ToSet(expect.mayChange), "RunEnd:unselected-file-changed">>,
          <<(expect.sites /\ Completed) => \A f \in DOMAIN expect.siteMust : ToSet(expect.siteMust[f]) \subseteq sites[f], "RunEnd:permitted-site-not-rewritten">>
        >>))

\* a step of the environment (fault injection by the harness: a file deleted or replaced while the run is going on);
\* not an action of codemodder: the file is exempt from the composition invariants from here on
TrEnvChange ==
  /\ IsEv("EnvChange")
  /\ disk' = [disk EXCEPT ![Ev.f] = Ev.post]
  /\ env' = env \cup {Ev.f}
  /\ l' = l + 1 /\ tid' = tid
  /\ UNCHANGED <<pc, cfg, files, queue, started, cur, orig, inflight, done, agg, merged, report, rstate, exit, expect, changed, sites>>
  /\ verdict' = verdict \cup InvFails'

\* cross-run comparisons computed by the harness (dry vs real, batch vs chain, perturbed vs reference run, second run)
TrCompare ==
  /\ IsEv("Compare")
  /\ pc \in {"done", "stopped"}
  /\ UNCHANGED <<vars, expect, changed, sites>>
  /\ Advance(Fails(<< <<Ev.equal, "Compare:" \o Ev.what>> >>))

TraceNext ==
  \/ TrCompare \/ TrEnvChange
  \/ TrRunStart \/ TrSelected \/ TrCodemodStart \/ TrFileBegin \/ TrFileEnd \/ TrMerge
  \/ TrCodemodEnd \/ TrDeps \/ TrReportBuilt \/ TrReportWritten \/ TrRunEnd

TraceSpec == TraceInit /\ [][TraceNext]_tvars

Finished == l = Len(Tr) + 1

\* the verdict of a trace, printed once when its last event has been consumed
Emit == Finished => PrintT(<<"VERDICT", Traces[tid].id, ToString(verdict)>>)

TraceAccepted == Finished => verdict = {}

\* every event of every trace is consumed: the last state of each behaviour is Finished
\* (checked by the harness from the VERDICT lines: one per trace)
=============================================================================
