------------------------------- MODULE MC_Run -------------------------------
(***************************************************************************)
(* M1: the design of a run, explored exhaustively for small constants:     *)
(* every interleaving of the pool, every placement of failures, every      *)
(* subset of files a codemod touches, dry-run or not, report writable or   *)
(* not.  `Bug` weakens one design guard at a time; the setup self-test     *)
(* checks that each weakening is caught by the invariant that names the    *)
(* property (non-vacuity of the invariants).                               *)
(***************************************************************************)
EXTENDS Run

CONSTANTS Files,      \* sequence of files (input order)
          Manifests,  \* subset of the files that are dependency manifests
          Queue,      \* sequence of codemods
          MaxW,       \* --max-workers ranges over 1..MaxW
          MaxVer,     \* content versions 0..MaxVer
          Bug         \* "none" or the name of a weakened guard

MCFiles == <<"f1", "f2", "m1">>
MCQueue == <<"k1", "k2">>
Versions == 0..MaxVer
FS == {Files[i] : i \in 1..Len(Files)}

Init ==
  /\ pc = "init" /\ cfg = [dryRun |-> FALSE, maxWorkers |-> 1, output |-> FALSE]
  /\ files = <<>> /\ queue = <<>> /\ started = <<>> /\ cur = NoC
  /\ disk = <<>> /\ orig = <<>> /\ inflight = {} /\ done = <<>> /\ agg = <<>>
  /\ merged = FALSE /\ report = <<>> /\ rstate = "none" /\ exit = -1

BeginGuard(f) ==
  IF Bug = "poolUnbounded"
  THEN pc = "pool" /\ ~merged /\ f \in DOMAIN disk /\ f \notin inflight /\ done[f].outcome = "none"
  ELSE Begin_ok(f)

EndGuard(f, o, new, post) ==
  CASE Bug = "dryRunWrites" ->
         /\ pc = "pool" /\ f \in inflight /\ o \in Outcomes
         /\ (o = "changed" => new # disk[f]) /\ (o # "changed" => new = disk[f])
         /\ post = IF o = "changed" THEN new ELSE disk[f]
    [] Bug = "failedFileWritten" ->
         /\ pc = "pool" /\ f \in inflight /\ o \in Outcomes
         /\ (o = "unchanged" => new = disk[f]) /\ (o = "changed" => new # disk[f])
         /\ post = IF o # "unchanged" /\ ~cfg.dryRun THEN new ELSE disk[f]
    [] Bug = "silentWrite" ->
         /\ pc = "pool" /\ f \in inflight /\ o \in Outcomes
         /\ (o = "changed" => new # disk[f]) /\ (o # "changed" => new = disk[f])
         /\ (o = "changed" /\ ~cfg.dryRun => post = new)
    [] Bug = "emptyChangeset" ->
         /\ pc = "pool" /\ f \in inflight /\ o \in Outcomes
         /\ (o # "changed" => new = disk[f])
         /\ post = IF o = "changed" /\ ~cfg.dryRun THEN new ELSE disk[f]
    [] OTHER -> End_ok(f, o, new, post)

MergeArgs ==
  IF Bug = "mergeDropsFailures" THEN <<ChangedNow, <<>>>>
  ELSE IF Bug = "mergeReversed" THEN <<Reverse(ChangedNow), FailedNow>>
  ELSE <<ChangedNow, FailedNow>>

StartGuard(c) ==
  IF Bug = "skipsCodemod"
  THEN pc = "loop" /\ cur = NoC /\ \E i \in 1..Len(queue) : c = queue[i] /\ i > Len(started)
  ELSE CodemodStart_ok(c)

ReportArg ==
  IF Bug = "reportDropsResult" /\ Len(queue) > 0 THEN Tail(BuildReport) ELSE BuildReport

ExitArg == IF Bug = "exitIgnoresWriteFailure" THEN 0 ELSE CompletedExit

Next ==
  \/ \E dr \in BOOLEAN, w \in 1..MaxW, out \in BOOLEAN :
        LET c == [dryRun |-> dr, maxWorkers |-> w, output |-> out]
            d == [f \in FS |-> 0] IN
        RunStart_ok(c, Files, d) /\ RunStart_do(c, Files, d)
  \/ Select_ok(Queue) /\ Select_do(Queue)
  \/ \E c \in {Queue[i] : i \in 1..Len(Queue)} : StartGuard(c) /\ CodemodStart_do(c)
  \/ \E f \in FS \ Manifests : BeginGuard(f) /\ Begin_do(f)
  \/ \E f \in FS, o \in Outcomes, new \in Versions, post \in Versions :
        EndGuard(f, o, new, post) /\ End_do(f, o, new, post)
  \/ /\ pc = "pool" /\ inflight = {} /\ ~merged
     /\ Merge_do(MergeArgs[1], MergeArgs[2])
  \/ CodemodEnd_ok(cur) /\ CodemodEnd_do(cur)
  \/ \E store \in Manifests \cup {NoC}, new \in Versions, post \in Versions :
        Deps_ok(cur, store, new, post) /\ Deps_do(cur, store, new, post)
  \/ /\ pc = "loop" /\ cur = NoC /\ rstate = "none" /\ cfg.output
     /\ (started = queue \/ started = <<>>)
     /\ ReportBuilt_do(ReportArg)
  \/ \E rc \in {0, 2} : ReportWritten_ok(rc) /\ ReportWritten_do(rc)
  \/ /\ \/ pc = "written"
        \/ (pc = "loop" /\ cur = NoC /\ ~cfg.output /\ (started = queue \/ started = <<>>))
     /\ RunEnd_do(ExitArg, disk)

Spec == Init /\ [][Next]_vars /\ WF_vars(Next)

\* the merge step adds exactly what the design says, whatever the interleaving was (C11)
C11_MergeDeterministic ==
  (pc \in {"pool", "deps"} /\ merged) =>
     LET ch == agg[cur].changes IN
     /\ Len(ch) >= Len(ChangedNow)
     /\ SubSeq(ch, Len(ch) - Len(ChangedNow) + 1, Len(ch)) = [i \in 1..Len(ChangedNow) |-> ChangeRec(ChangedNow[i])]
     /\ \A i \in 1..Len(FailedNow) : \E j \in 1..Len(agg[cur].failed) : agg[cur].failed[j] = FailedNow[i]

C15_ReportComplete ==
  rstate # "none" => report = BuildReport

Terminates == <>(pc = "done")
=============================================================================
