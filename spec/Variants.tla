------------------------------ MODULE Variants ------------------------------
(***************************************************************************)
(* The space of generic program variations used for the properties about   *)
(* rewritten text (C01, C02, C07, C16, C18): how a seed snippet is wrapped *)
(* (nesting / scope), laid out, multiplied and how its imports are placed. *)
(* TLC enumerates the compatible feature vectors; the harness applies them *)
(* to the vendored seed of every codemod.  The predicates themselves       *)
(* ("this text parses", "this name is bound") are computed by CPython and  *)
(* enter the traces as observations; Trace_Run monitors them.              *)
(***************************************************************************)
EXTENDS Naturals, TLC

Wraps   == {"none", "function", "method", "if", "try", "with", "nested", "async", "loop"}
Layouts == {"lf", "crlf", "nofinalnl", "tabs", "comments", "blanklines", "bom"}
Mults   == {1, 2}
Imports == {"asis", "local", "decoy"}   \* decoy: an unrelated function imports locally what the fix needs
\* how the argument list of the call(s) on the lines the fix touches is extended (C16: "every other argument ... is
\* preserved", and in its place): a trailing `**extra_kw`, a `**extra_kw` in front of the keyword arguments, one more
\* keyword argument, a `**extra_map` entry in every dict literal passed to the call; and (C18: several sites on one
\* line) the expression of the touched statement written twice, as a pair, on the same line
\* "multiline": a parenthesised comparison / boolean / arithmetic expression of the touched statement is broken over
\* two lines after its operator (legal only inside the parentheses: a rewrite that drops them must re-join the lines)
\* "list-elements": the call of the touched statement becomes two elements of a list literal laid out one per line (a site
\* that starts on a continuation line of its statement)
\* "fstring-field": the call of the touched statement becomes the replacement field of an f-string (a rewrite that starts
\* with a brace, or brings the quote of the string along, changes the string or breaks it)
\* "inline-suite": the touched one-line statement becomes the one-line body of `if True: <stmt>` (a suite that is not an
\* indented block: statements cannot simply be added before or after it)
Args    == {"asis", "kwspread-last", "kwspread-mid", "extra-kw", "dict-spread", "same-line-pair", "multiline", "list-elements", "fstring-field",
            "inline-suite"}

VARIABLES v, st

Compatible(x) ==
  /\ (x.layout = "tabs") => (x.wrap # "none" \/ x.imp = "local")      \* tabs need indentation to act on
  /\ (x.imp = "local") => x.wrap \in {"none", "if", "try", "loop"}     \* keep nesting depth bounded
  /\ (x.wrap = "async") => x.mult = 1
  /\ (x.imp = "decoy") => x.mult = 1
  /\ (x.args # "asis") => (x.mult = 1 /\ x.imp = "asis" /\ x.layout \in {"lf", "crlf", "comments"})

Init == /\ st = "init"
        /\ \E w \in Wraps, l \in Layouts, m \in Mults, i \in Imports, a \in Args :
             /\ v = [wrap |-> w, layout |-> l, mult |-> m, imp |-> i, args |-> a]
             /\ Compatible(v)
Next == st = "init" /\ st' = "done" /\ UNCHANGED v
Spec == Init /\ [][Next]_<<v, st>>
=============================================================================
