----------------------------- MODULE Selection -----------------------------
(***************************************************************************)
(* C17 - reference selection of the codemods of a run, written from the    *)
(* property statement.                                                     *)
(*                                                                         *)
(*  reg : sequence of [id |-> code points, origin |-> STRING]  (as loaded) *)
(*  inc, exc, defExc : sequences of patterns (code-point sequences)        *)
(*  sast : TRUE iff Sonar issue files or SARIF files were supplied         *)
(***************************************************************************)
EXTENDS Globs, SequencesExt

Ids(reg) == [k \in 1..Len(reg) |-> reg[k].id]

\* keep the first occurrence of every element, in order
Dedup(s) ==
  LET keep == {i \in 1..Len(s) : \A j \in 1..(i - 1) : s[j] # s[i]}
      idx  == SetToSortSeq(keep, LAMBDA a, b : a < b)
  IN  [k \in 1..Len(idx) |-> s[idx[k]]]

\* a pattern with `*` is a wildcard (whole-id match); anything else names one id
Hit(pat, id) == IF HasStar(pat) THEN StarMatch(pat, id) ELSE pat = id

\* include list: list order; registry order inside a wildcard; each id once; unknown ignored
SelectInclude(inc, reg) ==
  Dedup(FlattenSeq([k \in 1..Len(inc) |-> SelectSeq(Ids(reg), LAMBDA id : Hit(inc[k], id))]))

\* which result inputs put a run into SAST mode: "when Sonar issue files or SARIF files are supplied"
InputKinds == {"none", "sonarIssues", "sarifSemgrep", "sarifOtherTool", "hotspotsOnly", "dojoOnly", "issuesAndHotspots"}
SastMode(k) == k \in {"sonarIssues", "sarifSemgrep", "sarifOtherTool", "issuesAndHotspots"}

\* eligibility by mode: tool-specific codemods iff SAST inputs were supplied
Eligible(c, sast) == sast <=> (c.origin # "pixee")

SelectExclude(exc, reg, sast) ==
  Ids(SelectSeq(reg, LAMBDA c : Eligible(c, sast) /\ ~\E k \in 1..Len(exc) : Hit(exc[k], c.id)))

\* The statement does not say whether a user exclude list replaces or adds to the default
\* exclusions: both readings are accepted.
Acceptable(inc, exc, reg, sast, defExc) ==
  IF inc # <<>> THEN {SelectInclude(inc, reg)}
  ELSE IF exc = <<>> THEN {SelectExclude(defExc, reg, sast)}
  ELSE {SelectExclude(exc, reg, sast), SelectExclude(exc \o defExc, reg, sast)}

SelectOK(observed, inc, exc, reg, sast, defExc) == observed \in Acceptable(inc, exc, reg, sast, defExc)

(* ---- lemmas about the reference itself (checked in every generator state) ---- *)
NoDup(s) == \A i, j \in 1..Len(s) : s[i] = s[j] => i = j
IsSubseqOfRegistry(s, reg) ==   \* order-preserving subsequence of the registry ids
  \E f \in [1..Len(s) -> 1..Len(reg)] :
     /\ \A i \in 1..Len(s) : reg[f[i]].id = s[i]
     /\ \A i, j \in 1..Len(s) : i < j => f[i] < f[j]
=============================================================================
