-------------------------------- MODULE Run --------------------------------
(***************************************************************************)
(* One invocation of codemodder as a state machine.                        *)
(*                                                                         *)
(* Every action A is given as a pair                                       *)
(*     A_do(args)   what the step does to the state, with the observed     *)
(*                  values as arguments (so that a recorded event can be   *)
(*                  bound to it), and                                      *)
(*     A_ok(args)   the design guard: what a correct implementation        *)
(*                  guarantees about those arguments.                      *)
(* The design (MC_Run) is  \E args : A_ok(args) /\ A_do(args) ; the trace  *)
(* specification (Trace_Run) takes A_do with the logged arguments and      *)
(* reports a failed A_ok as a named verdict, so checking continues past    *)
(* the first mismatch.  The properties are state invariants and hold of    *)
(* the design for every interleaving; a trace on which one fails is a      *)
(* violation by the implementation.                                        *)
(*                                                                         *)
(* Anchors: codemodder.run / apply_codemods (loop), BaseCodemod._apply     *)
(* (pool), _process_file + transformer pipelines (per-file step),          *)
(* CodemodExecutionContext.process_results / process_dependencies /        *)
(* compile_results, CodeTF.build / write_report.                           *)
(***************************************************************************)
EXTENDS Integers, Sequences, FiniteSets, SequencesExt, TLC

NoC == "none"

VARIABLES
  pc,        \* "init" -> "args" -> "loop" <-> ("pool" -> "deps") -> "report" -> "written" -> "done"
  cfg,       \* [dryRun, maxWorkers, output]
  files,     \* the project's files in input (sorted-path) order; manifests included
  queue,     \* codemods selected for this run, in order
  started,   \* codemods whose application began, in order
  cur,       \* the running codemod or NoC
  disk,      \* file |-> content version now on disk
  orig,      \* file |-> content version at RunStart
  inflight,  \* files being processed by the pool right now
  done,      \* file |-> outcome of the current codemod on it ("none" while untouched)
  agg,       \* codemod |-> [changes : Seq([f, pre, new]), failed : Seq(f)] accumulated by the context
  merged,    \* has the current codemod's pool result been merged
  report,    \* <<>> or the built report: Seq([c, changed : Seq(f), failed : Seq(f)])
  rstate,    \* "none" | "built" | "written" | "failed"
  exit       \* -1 while running, else the process status

vars == <<pc, cfg, files, queue, started, cur, disk, orig, inflight, done, agg, merged, report, rstate, exit>>

Outcomes == {"changed", "unchanged", "failed"}
NoOutcome == [outcome |-> "none", pre |-> 0, new |-> 0]

FileSet == {files[i] : i \in 1..Len(files)}
EmptyAgg == [changes |-> <<>>, failed |-> <<>>]

(* ------------------------------------------------------------------ start *)
RunStart_ok(c, fs, d) == /\ pc = "init"
                         /\ c.maxWorkers >= 1
                         /\ DOMAIN d = {fs[i] : i \in 1..Len(fs)}
RunStart_do(c, fs, d) ==
  /\ cfg' = c /\ files' = fs /\ disk' = d /\ orig' = d
  /\ pc' = "args"
  /\ done' = [f \in DOMAIN d |-> NoOutcome]
  /\ UNCHANGED <<queue, started, cur, inflight, agg, merged, report, rstate, exit>>

Select_ok(q) == pc = "args" /\ \A i, j \in 1..Len(q) : q[i] = q[j] => i = j
Select_do(q) ==
  /\ queue' = q /\ pc' = "loop"
  /\ agg' = [c \in {q[i] : i \in 1..Len(q)} |-> EmptyAgg]
  /\ UNCHANGED <<cfg, files, started, cur, disk, orig, inflight, done, merged, report, rstate, exit>>

(* ------------------------------------------------------------- codemod loop *)
CodemodStart_ok(c) ==
  /\ pc = "loop" /\ cur = NoC
  /\ Len(started) < Len(queue)
  /\ c = queue[Len(started) + 1]                       \* C17: in order, once each
CodemodStart_do(c) ==
  /\ cur' = c /\ started' = Append(started, c) /\ pc' = "pool"
  /\ inflight' = {} /\ merged' = FALSE
  /\ done' = [f \in DOMAIN disk |-> NoOutcome]
  /\ agg' = IF c \in DOMAIN agg THEN agg ELSE agg @@ (c :> EmptyAgg)
  /\ UNCHANGED <<cfg, files, queue, disk, orig, report, rstate, exit>>

(* ---- the pool: BaseCodemod._apply + _process_file ---- *)
Begin_ok(f) ==
  /\ pc = "pool" /\ ~merged
  /\ f \in DOMAIN disk /\ f \notin inflight /\ done[f].outcome = "none"
  /\ Cardinality(inflight) < cfg.maxWorkers              \* C11: at most --max-workers in flight
Begin_do(f) ==
  /\ inflight' = inflight \cup {f}
  /\ UNCHANGED <<pc, cfg, files, queue, started, cur, disk, orig, done, agg, merged, report, rstate, exit>>

\* o: outcome; new: the version the reported diff leads to (= pre when nothing is reported);
\* post: the version found on disk after the step.
End_ok(f, o, new, post) ==
  /\ pc = "pool" /\ f \in inflight /\ o \in Outcomes
  /\ o = "changed"  => new # disk[f]                                 \* C03: a changeset names a real change
  /\ o # "changed"  => new = disk[f]
  /\ post = IF o = "changed" /\ ~cfg.dryRun THEN new ELSE disk[f]     \* C03/C04/C10: disk follows the diff, or nothing
End_do(f, o, new, post) ==
  /\ inflight' = inflight \ {f}
  /\ done' = [done EXCEPT ![f] = [outcome |-> o, pre |-> disk[f], new |-> new]]
  /\ disk' = [disk EXCEPT ![f] = post]
  /\ UNCHANGED <<pc, cfg, files, queue, started, cur, orig, agg, merged, report, rstate, exit>>

\* what process_results must add for the current codemod: per-file outcomes in input order
ChangedNow == SelectSeq(files, LAMBDA f : done[f].outcome = "changed")
FailedNow  == SelectSeq(files, LAMBDA f : done[f].outcome = "failed")
ChangeRec(f) == [f |-> f, pre |-> done[f].pre, new |-> done[f].new]

Merge_ok(ch, fl) ==
  /\ pc = "pool" /\ inflight = {} /\ ~merged
  /\ ch = ChangedNow /\ fl = FailedNow                  \* C11: merge is a function of the inputs, in input order
Merge_do(ch, fl) ==
  /\ merged' = TRUE
  /\ agg' = [agg EXCEPT ![cur] = [changes |-> @.changes \o [i \in 1..Len(ch) |-> ChangeRec(ch[i])],
                                  failed  |-> @.failed \o fl]]
  /\ UNCHANGED <<pc, cfg, files, queue, started, cur, disk, orig, inflight, done, report, rstate, exit>>

CodemodEnd_ok(c) == pc = "pool" /\ c = cur /\ inflight = {}
                    /\ (merged \/ \A f \in DOMAIN done : done[f].outcome = "none")
CodemodEnd_do(c) ==
  /\ pc' = "deps"
  /\ UNCHANGED <<cfg, files, queue, started, cur, disk, orig, inflight, done, agg, merged, report, rstate, exit>>

(* ---- dependency manifests: process_dependencies ---- *)
\* store = NoC when no manifest is updated; otherwise one manifest file, rewritten unless dry-run
Deps_ok(c, store, new, post) ==
  /\ pc = "deps" /\ c = cur
  /\ store # NoC => /\ store \in DOMAIN disk /\ new # disk[store]
                    /\ post = IF cfg.dryRun THEN disk[store] ELSE new
Deps_do(c, store, new, post) ==
  /\ pc' = "loop" /\ cur' = NoC
  /\ IF store = NoC THEN UNCHANGED <<disk, agg>>
     ELSE /\ agg' = [agg EXCEPT ![c].changes = Append(@, [f |-> store, pre |-> disk[store], new |-> new])]
          /\ disk' = [disk EXCEPT ![store] = post]
  /\ UNCHANGED <<cfg, files, queue, started, orig, inflight, done, merged, report, rstate, exit>>

(* ---- report: compile_results + CodeTF.build + write_report ---- *)
ResultOf(c) == [c |-> c,
                changed |-> [i \in 1..Len(agg[c].changes) |-> agg[c].changes[i].f],
                failed  |-> agg[c].failed]
BuildReport == [i \in 1..Len(queue) |-> ResultOf(queue[i])]

ReportBuilt_ok(r) ==
  /\ pc = "loop" /\ cur = NoC /\ rstate = "none"
  /\ started = queue \/ started = <<>>                 \* all selected codemods ran (or none: nothing to scan)
  /\ r = BuildReport                                   \* C15: one result per codemod, in order, with its own outcome
ReportBuilt_do(r) ==
  /\ report' = r /\ rstate' = "built" /\ pc' = "report"
  /\ UNCHANGED <<cfg, files, queue, started, cur, disk, orig, inflight, done, agg, merged, exit>>

ReportWritten_ok(rc) == pc = "report" /\ rstate = "built" /\ rc \in {0, 2}
ReportWritten_do(rc) ==
  /\ rstate' = IF rc = 0 THEN "written" ELSE "failed"
  /\ pc' = "written"
  /\ UNCHANGED <<cfg, files, queue, started, cur, disk, orig, inflight, done, agg, merged, report, exit>>

\* the status a completed run owes its caller (C20)
CompletedExit == IF rstate = "failed" THEN 2 ELSE 0

RunEnd_ok(x, d) ==
  /\ \/ pc = "written"
     \/ (pc = "loop" /\ cur = NoC /\ ~cfg.output /\ (started = queue \/ started = <<>>))
  /\ x = CompletedExit
  /\ d = disk                                          \* nothing changed behind the pipeline's back
RunEnd_do(x, d) ==
  /\ exit' = x /\ disk' = d
  /\ pc' = IF pc \in {"init", "args"} THEN "stopped" ELSE "done"   \* "stopped": ended before a run was set up
  /\ UNCHANGED <<cfg, files, queue, started, cur, orig, inflight, done, agg, merged, report, rstate>>

(* ======================================================================== *)
(* Properties (state invariants unless said otherwise)                      *)
(* ======================================================================== *)

\* all change records of the run so far for file f, in execution order
RECURSIVE ChangesFor(_, _)
ChangesFor(f, k) ==
  IF k = 0 THEN <<>>
  ELSE ChangesFor(f, k - 1) \o SelectSeq(agg[started[k]].changes, LAMBDA r : r.f = f)

\* pending outcome of the running codemod that is not merged yet
Pending(f) == IF cur # NoC /\ ~merged /\ done[f].outcome = "changed"
              THEN <<[f |-> f, pre |-> done[f].pre, new |-> done[f].new]>> ELSE <<>>

History(f) == ChangesFor(f, Len(started)) \o Pending(f)

RECURSIVE IsChain(_, _, _)
IsChain(h, from, to) ==
  IF h = <<>> THEN from = to
  ELSE Head(h).pre = from /\ IsChain(Tail(h), Head(h).new, to)

\* C03: the diffs compose, in execution order, from the original to the content on disk;
\* a file without a changeset is unchanged; every changeset is a real change.
\* X: files changed by the environment during the run (fault injection), exempt from the composition chain
C03_ComposesExcept(X) ==
  (pc # "init" /\ ~cfg.dryRun) =>
     \A f \in DOMAIN disk \ X : f \notin inflight => IsChain(History(f), orig[f], disk[f])
C03_Composes == C03_ComposesExcept({})
C03_RealChanges ==
  pc # "init" => \A f \in DOMAIN disk : \A i \in 1..Len(History(f)) : History(f)[i].pre # History(f)[i].new

\* C04: with --dry-run the disk never moves; every reported diff starts from the original
C04_DryRunFrozenExcept(X) ==
  (pc # "init" /\ cfg.dryRun) =>
     /\ \A f \in DOMAIN disk \ X : disk[f] = orig[f]
     /\ \A f \in DOMAIN disk \ X : \A i \in 1..Len(History(f)) : History(f)[i].pre = orig[f]
C04_DryRunFrozen == C04_DryRunFrozenExcept({})

\* C10: a failed file is left as it was
C10_FailedUntouched ==
  pc \in {"pool", "deps"} => \A f \in DOMAIN disk : done[f].outcome = "failed" => done[f].new = done[f].pre

\* C11: never more than --max-workers files in flight
C11_WorkerBound == pc # "init" => Cardinality(inflight) <= cfg.maxWorkers

\* C17: codemods start in the selected order, each at most once
C17_RunsOnceInOrder == IsPrefix(started, queue)

\* C15: the report has one result per selected codemod, in order; failed and changed files disjoint
C15_ReportShape ==
  rstate # "none" =>
     /\ Len(report) = Len(queue)
     /\ \A i \in 1..Len(report) :
          /\ report[i].c = queue[i]
          /\ \A j \in 1..Len(report[i].changed) : \A k \in 1..Len(report[i].failed) :
                report[i].changed[j] # report[i].failed[k]

\* C20: exit 0 iff the run completed and (when asked for) the report is on disk
C20_ExitStatus ==
  exit # -1 => /\ ((exit = 0 /\ pc = "done") => (cfg.output => rstate = "written"))
               /\ (rstate = "written" => exit = 0)
               /\ (rstate = "failed" => exit = 2)

TypeOK ==
  /\ pc \in {"init", "args", "loop", "pool", "deps", "report", "written", "done", "stopped"}
  /\ rstate \in {"none", "built", "written", "failed"}
  /\ exit \in {-1, 0, 1, 2, 3}
=============================================================================
