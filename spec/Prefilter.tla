------------------------------ MODULE Prefilter ------------------------------
(***************************************************************************)
(* C09 - the semgrep pre-filter as a design element.                        *)
(*                                                                         *)
(* codemodder.run takes ONE scan with the rules of every selected codemod  *)
(* before any codemod has touched the tree (find_semgrep_results); later,  *)
(* a rule-detected codemod runs its own detector only over the files in    *)
(* which that first scan had reported its rule                              *)
(* (context.semgrep_results_for_rule -> SemgrepRuleDetector.apply).        *)
(*                                                                         *)
(* Abstraction: the content of a file is the set of codemods that have a   *)
(* site in it; fixing codemod k's sites removes k from the content and     *)
(* adds Enables[k] - the triggers its fix creates for other codemods.      *)
(* A batch run (one pre-filter, gating every codemod) is compared with the *)
(* chain of single-codemod runs (each with a pre-filter of its own).       *)
(*                                                                         *)
(* TLC decides: batch = chain for every project PROVIDED no codemod's fix  *)
(* creates a trigger of a codemod that runs later (NoEnabling); without    *)
(* the proviso the design is refuted (checked by setup).  The proviso is   *)
(* a claim about the real registry: harness/enabling.py measures it on the *)
(* vendored seeds, and every pair it finds is run batch vs chain by C09.   *)
(***************************************************************************)
EXTENDS Naturals, Sequences, FiniteSets, TLC

CONSTANTS Codemods,    \* a sequence: the order of the run
          Files,
          Assume       \* TRUE: only Enables relations satisfying NoEnabling are explored

Ks == {Codemods[i] : i \in 1..Len(Codemods)}
Pos(k) == CHOOSE i \in 1..Len(Codemods) : Codemods[i] = k

Fix(k, c, en) == (c \ {k}) \cup en[k]

\* one codemod over the tree: `gate` = the files in which the pre-filter reported k's rule
ApplyOne(k, tree, gate, en) ==
  [f \in Files |-> IF f \in gate /\ k \in tree[f] THEN Fix(k, tree[f], en) ELSE tree[f]]

RECURSIVE Batch(_, _, _, _)
Batch(i, tree, pre, en) ==
  IF i > Len(Codemods) THEN tree
  ELSE LET k == Codemods[i] IN Batch(i + 1, ApplyOne(k, tree, {f \in Files : k \in pre[f]}, en), pre, en)

RECURSIVE Chain(_, _, _)
Chain(i, tree, en) ==
  IF i > Len(Codemods) THEN tree
  ELSE LET k == Codemods[i] IN Chain(i + 1, ApplyOne(k, tree, {f \in Files : k \in tree[f]}, en), en)   \* a fresh scan each time

NoEnabling(en) == \A a \in Ks, b \in Ks : (b \in en[a]) => Pos(b) < Pos(a)     \* a fix may only create triggers of codemods that ran already

MCCodemods == <<"k1", "k2", "k3">>

VARIABLES tree0, en, st
Init == /\ tree0 \in [Files -> SUBSET Ks]
        /\ en \in [Ks -> SUBSET Ks]
        /\ (\A k \in Ks : k \notin en[k])            \* a fix removes its own trigger (C07)
        /\ (Assume => NoEnabling(en))
        /\ st = "init"
Next == st = "init" /\ st' = "done" /\ UNCHANGED <<tree0, en>>
Spec == Init /\ [][Next]_<<tree0, en, st>>

C09_BatchEqualsChain == Batch(1, tree0, tree0, en) = Chain(1, tree0, en)
=============================================================================
