SPECIFICATION Spec
CONSTANTS
  Codemods <- MCCodemods
  Files = {f1, f2}
  Assume = TRUE
INVARIANT C09_BatchEqualsChain
CHECK_DEADLOCK FALSE
