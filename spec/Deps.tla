-------------------------------- MODULE Deps --------------------------------
(***************************************************************************)
(* C14 - which dependency manifest a fix may / must update, written from   *)
(* the property statement.  A project has at most one manifest of each of  *)
(* the four kinds; the abstract state of a manifest with respect to the    *)
(* needed package is                                                       *)
(*   "none"        no such file                                            *)
(*   "absent"      file exists, can take a requirement, package not there  *)
(*   "same"        declares the package (any version), same spelling       *)
(*   "spelled"     declares it under another spelling / case (PEP 503)     *)
(*   "unwritable"  file exists but has no place to add a requirement       *)
(* M2 generator: every assignment of states to the four kinds.             *)
(***************************************************************************)
EXTENDS Naturals, FiniteSets, TLC

Kinds  == {"pyproject.toml", "setup.py", "requirements.txt", "setup.cfg"}
States == {"none", "absent", "same", "spelled", "unwritable"}

VARIABLES m, exp, st

Declares(s)   == s \in {"same", "spelled"}
Candidates(a) == {k \in Kinds : a[k] = "absent"}
Declared(a)   == \E k \in Kinds : Declares(a[k])

\* the set C of manifests a run changes is acceptable iff
Acceptable(a, C) ==
  /\ C \subseteq Candidates(a)            \* a manifest that declares the package, or cannot take it, is untouched
  /\ Cardinality(C) <= 1                  \* at most one manifest is updated
  /\ (~Declared(a) /\ Candidates(a) # {}) => Cardinality(C) = 1     \* the requirement does get declared when it can be

\* the report must say that nothing could be updated
MustReportFailure(a) == ~Declared(a) /\ Candidates(a) = {}

Init == m \in [Kinds -> States] /\ (\E k \in Kinds : m[k] # "none") /\ st = "init" /\ exp = [cand |-> {}, mustOne |-> FALSE, mustSayFailed |-> FALSE]
Next == /\ st = "init" /\ st' = "done" /\ UNCHANGED m
        /\ exp' = [cand |-> Candidates(m), mustOne |-> (~Declared(m) /\ Candidates(m) # {}), mustSayFailed |-> MustReportFailure(m)]
Spec == Init /\ [][Next]_<<m, exp, st>>

\* sanity: some acceptable outcome always exists, and a second run (package now declared where it was added) may add nothing
LemmaSatisfiable == \E C \in SUBSET Kinds : Acceptable(m, C)
LemmaSecondRunAddsNothing ==
  \A k \in Candidates(m) : LET m2 == [m EXCEPT ![k] = "same"] IN Acceptable(m2, {})
=============================================================================
