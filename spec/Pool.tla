-------------------------------- MODULE Pool --------------------------------
(***************************************************************************)
(* The per-codemod worker pool (BaseCodemod._apply): files are submitted   *)
(* in input order to a pool of W workers (executor.map), each worker       *)
(* takes the next pending file, files complete in any order, the pool is   *)
(* shut down (all complete) and the results are handed to                  *)
(* process_results in INPUT order.                                         *)
(*                                                                         *)
(* C11: never more than W files in flight; what is merged is a function    *)
(* of the inputs only - not of the interleaving.                           *)
(***************************************************************************)
EXTENDS Naturals, Sequences, FiniteSets, SequencesExt

CONSTANTS Tasks,     \* sequence of files in input order
          W,         \* --max-workers
          Outcome(_),\* the (deterministic) per-file result
          Bug        \* "none" | "unbounded" | "completionOrder"

VARIABLES pending, running, finishedSeq, delivered

pvars == <<pending, running, finishedSeq, delivered>>

TaskSet == {Tasks[i] : i \in 1..Len(Tasks)}
Finished == {finishedSeq[i] : i \in 1..Len(finishedSeq)}

Init == pending = Tasks /\ running = {} /\ finishedSeq = <<>> /\ delivered = <<>>

Begin(t) ==
  /\ pending # <<>> /\ t = Head(pending)
  /\ (Bug = "unbounded" \/ Cardinality(running) < W)
  /\ running' = running \cup {t} /\ pending' = Tail(pending)
  /\ UNCHANGED <<finishedSeq, delivered>>

End(t) ==
  /\ t \in running
  /\ running' = running \ {t} /\ finishedSeq' = Append(finishedSeq, t)
  /\ UNCHANGED <<pending, delivered>>

\* executor.shutdown(wait=True), then process_results consumes the map iterator
Deliver ==
  /\ pending = <<>> /\ running = {} /\ Len(delivered) < Len(Tasks)
  /\ LET order == IF Bug = "completionOrder" THEN finishedSeq ELSE Tasks
         t == order[Len(delivered) + 1]
     IN delivered' = Append(delivered, <<t, Outcome(t)>>)
  /\ UNCHANGED <<pending, running, finishedSeq>>

Next == (\E t \in TaskSet : Begin(t) \/ End(t)) \/ Deliver

Spec == Init /\ [][Next]_pvars /\ WF_pvars(Next)

C11_WorkerBound == Cardinality(running) <= W
OncEach == /\ \A i, j \in 1..Len(finishedSeq) : finishedSeq[i] = finishedSeq[j] => i = j
           /\ Finished \cap running = {}
           /\ \A t \in TaskSet : t \in Finished \cup running \/ \E i \in 1..Len(pending) : pending[i] = t
Expected == [i \in 1..Len(Tasks) |-> <<Tasks[i], Outcome(Tasks[i])>>]
C11_Deterministic == IsPrefix(delivered, Expected)
Done == Len(delivered) = Len(Tasks)
Terminates == <>Done
=============================================================================
