----------------------------- MODULE ExprRewrite -----------------------------
(***************************************************************************)
(* C08 - transcription of the two refactoring codemods with rich case      *)
(* analysis, over a small expression algebra with an evaluator, so that    *)
(* TLC decides behaviour preservation of the RULES for every expression    *)
(* and every assignment of the bounded space:                              *)
(*  (a) combine-startswith-endswith / combine-isinstance-issubclass        *)
(*      (core_codemods/combine_calls_base.py: the three folding cases of   *)
(*      leave_BooleanOperation, bottom-up, with the tuple flattening and   *)
(*      de-duplication of combine_args);                                   *)
(*  (b) invert-boolean-check (core_codemods/invert_boolean_check.py: the   *)
(*      operator table of _invert_comparisons).                            *)
(*                                                                         *)
(* Expressions                                                             *)
(*   [t |-> "call", recv, fn, arg]     recv.fn(arg)                        *)
(*   [t |-> "name", n]                 a boolean variable                  *)
(*   [t |-> "bop", op, l, r]           l and r / l or r                    *)
(*   [t |-> "not", e]                                                      *)
(*   [t |-> "cmp", left, rest]         left op1 x1 op2 x2 ...  (operands:  *)
(*                                     [k |-> "var", n] | [k |-> "int", v] *)
(*                                     | [k |-> "tupv", n] a tuple variable*)
(*                                     | [k |-> "blit", v] True / False)   *)
(*   [t |-> "opd", o]                  a bare operand used as a truth value*)
(* Arguments of a call                                                     *)
(*   [k |-> "lit", v] a string literal, [k |-> "name", n] a variable,      *)
(*   [k |-> "tup", vs] a tuple whose elements are lit / name arguments     *)
(*                                                                         *)
(* Each rule set comes in two variants: "pinned" transcribes what the      *)
(* pinned commit does, "repaired" the behaviour-preserving rule.  The tree *)
(* has invert-boolean-check repaired (fix: commit); the folding into an    *)
(* inner `and` of combine_calls_base is pinned by the repository's own     *)
(* tests and stays a known finding (known_findings.json).                  *)
(***************************************************************************)
EXTENDS Integers, Sequences, FiniteSets, TLC

CONSTANTS VariantCombine,   \* "pinned": what the code does (and its tests pin) | "repaired": fold into an inner `or` only
          VariantInvert     \* "pinned": the pinned commit | "repaired": the tree after the fix: commit

Err == "TypeError"

(* ------------------------------------------------------------ evaluation *)
\* An assignment A: [atom : <<recv, fn, lit>> -> BOOLEAN, bool : name -> BOOLEAN, str : name -> literal or tuple of literals,
\*                   int : name -> Int, tup : name -> set of Int]
\* a string-typed variable holds [k |-> "s", v |-> literal] or [k |-> "t", vs |-> tuple of literals]

\* the literals an argument stands for, or Err (a tuple nested in a tuple is what Python rejects)
RECURSIVE ArgLits(_, _, _)
ArgLits(arg, A, nested) ==
  CASE arg.k = "lit"  -> {arg.v}
    [] arg.k = "name" -> LET v == A.str[arg.n] IN
                         IF v.k = "s" THEN {v.v}
                         ELSE IF nested THEN {Err} ELSE {v.vs[i] : i \in 1..Len(v.vs)}
    [] arg.k = "tup"  -> UNION {ArgLits(arg.vs[i], A, TRUE) : i \in 1..Len(arg.vs)}

\* Runtime values: the small integers 0..2 and the two booleans, encoded as 10 (False) and 11 (True).  A boolean
\* IS an integer for ==, <, `in` and truthiness (Num), but not for identity: `1 is True` is false.
BFalse == 10
BTrue == 11
Num(v) == IF v \in {BFalse, BTrue} THEN v - 10 ELSE v
Truthy(v) == Num(v) # 0

Val(o, A) == CASE o.k = "int" -> o.v [] o.k = "var" -> A.int[o.n] [] o.k = "tupv" -> A.tup[o.n] [] o.k = "blit" -> o.v

Rel(op, x, y) ==
  CASE op = "==" -> Num(x) = Num(y)   [] op = "!=" -> Num(x) # Num(y)
    [] op = "<"  -> Num(x) < Num(y)   [] op = ">"  -> Num(x) > Num(y)
    [] op = "<=" -> Num(x) <= Num(y)  [] op = ">=" -> Num(x) >= Num(y)
    [] op = "is" -> x = y   [] op = "is not" -> x # y        \* small integers and the booleans are singletons
    [] op = "in" -> \E m \in y : Num(m) = Num(x) [] op = "not in" -> \A m \in y : Num(m) # Num(x)

\* a comparison chain  a op1 b op2 c  means  (a op1 b) and (b op2 c)
EvalCmp(e, A) ==
  \A i \in 1..Len(e.rest) :
     Rel(e.rest[i].op, Val(IF i = 1 THEN e.left ELSE e.rest[i - 1].right, A), Val(e.rest[i].right, A))

\* results are "T", "F" or Err (TLC cannot compare a boolean with a string)
B(x) == IF x THEN "T" ELSE "F"

RECURSIVE Eval(_, _)
Eval(e, A) ==
  CASE e.t = "call" -> LET ls == ArgLits(e.arg, A, FALSE) IN
                       IF Err \in ls THEN Err ELSE B(\E v \in ls : A.atom[<<e.recv, e.fn, v>>])
    [] e.t = "name" -> B(A.bool[e.n])
    [] e.t = "not"  -> LET v == Eval(e.e, A) IN IF v = Err THEN Err ELSE B(v = "F")
    [] e.t = "bop"  -> LET l == Eval(e.l, A) IN
                       IF l = Err THEN Err
                       ELSE IF e.op = "or" THEN (IF l = "T" THEN "T" ELSE Eval(e.r, A))     \* short circuit
                       ELSE (IF l = "F" THEN "F" ELSE Eval(e.r, A))
    [] e.t = "cmp"  -> B(EvalCmp(e, A))
    [] e.t = "opd"  -> B(IF e.o.k = "tupv" THEN Val(e.o, A) # {} ELSE Truthy(Val(e.o, A)))

(* ------------------------------------------------------- (a) combine calls *)
IsCall(e) == e.t = "call"
SameInstance(a, b) == a.recv = b.recv
Matches(c, fn) == IsCall(c) /\ c.fn = fn

Elements(arg) == IF arg.k = "tup" THEN arg.vs ELSE <<arg>>

\* combine_args: concatenate the elements, dropping a literal that was already seen (names are never de-duplicated)
RECURSIVE DedupLits(_, _)
DedupLits(es, seen) ==
  IF es = <<>> THEN <<>>
  ELSE LET h == Head(es) IN
       IF h.k = "lit" /\ h.v \in seen THEN DedupLits(Tail(es), seen)
       ELSE <<h>> \o DedupLits(Tail(es), IF h.k = "lit" THEN seen \cup {h.v} ELSE seen)

Combine(c1, c2) ==
  [t |-> "call", recv |-> c1.recv, fn |-> c1.fn,
   arg |-> [k |-> "tup", vs |-> DedupLits(Elements(c1.arg) \o Elements(c2.arg), {})]]

\* which inner operators the two folding cases accept
InnerOk(op, vc) == IF vc = "pinned" THEN TRUE ELSE op = "or"

\* leave_BooleanOperation on a node whose children are already rewritten; functions are tried in the order given
RECURSIVE FoldWith(_, _, _)
FoldWith(n, fns, vc) ==
  IF fns = <<>> \/ n.t # "bop" \/ n.op # "or" THEN n
  ELSE LET fn == Head(fns) IN
       IF Matches(n.l, fn) /\ Matches(n.r, fn) /\ SameInstance(n.l, n.r)
         THEN Combine(n.l, n.r)
       ELSE IF Matches(n.l, fn) /\ n.r.t = "bop" /\ Matches(n.r.l, fn) /\ SameInstance(n.l, n.r.l) /\ InnerOk(n.r.op, vc)
         THEN [t |-> "bop", op |-> n.r.op, l |-> Combine(n.l, n.r.l), r |-> n.r.r]
       ELSE IF n.l.t = "bop" /\ Matches(n.l.r, fn) /\ Matches(n.r, fn) /\ SameInstance(n.l.r, n.r) /\ InnerOk(n.l.op, vc)
         THEN [t |-> "bop", op |-> n.l.op, l |-> n.l.l, r |-> Combine(n.l.r, n.r)]
       ELSE FoldWith(n, Tail(fns), vc)

Fns == <<"startswith", "endswith">>

RECURSIVE RewriteCombine(_, _)
RewriteCombine(e, vc) ==
  IF e.t = "bop"
  THEN FoldWith([t |-> "bop", op |-> e.op, l |-> RewriteCombine(e.l, vc), r |-> RewriteCombine(e.r, vc)], Fns, vc)
  ELSE IF e.t = "not" THEN [t |-> "not", e |-> RewriteCombine(e.e, vc)]
  ELSE e

(* ------------------------------------------------- (b) invert boolean check *)
Inverse(op) ==
  CASE op = "==" -> "!=" [] op = "!=" -> "=="
    [] op = "<"  -> ">=" [] op = ">"  -> "<="
    [] op = "<=" -> ">"  [] op = ">=" -> "<"
    [] op = "is" -> "is not" [] op = "is not" -> "is"
    [] op = "in" -> "not in" [] op = "not in" -> "in"

\* the operators the pinned code handles; for the others it builds a malformed node (the defect)
PinnedHandles(op) == op \in {"==", "!=", "<", ">", "<=", ">="}

\* report_new_comparison's special case, present in the pinned commit and in the tree (the repository's tests pin
\* it): `not x is True` -> `not x`, `not x is False` -> `x`.  It preserves behaviour only when x holds a bool.
IsBoolSpecial(c) == Len(c.rest) = 1 /\ c.rest[1].op = "is" /\ c.rest[1].right.k = "blit"
BoolSpecial(c) == IF c.rest[1].right.v = BTrue THEN [t |-> "not", e |-> [t |-> "opd", o |-> c.left]]
                  ELSE [t |-> "opd", o |-> c.left]

\* leave_UnaryOperation: `not <comparison>`
\*   "pinned"   the pinned commit;  "tree" the tree after the fix: commit (single links only, special case kept);
\*   "repaired" the behaviour-preserving rule (single links only, no special case)
RewriteInvert(e, vi) ==
  IF e.t = "not" /\ e.e.t = "cmp" THEN
     LET c == e.e IN
     IF vi = "pinned" THEN
        \* every link is inverted in place, whatever the chain length; unhandled operators yield garbage, modelled
        \* as the special result "malformed" (observably: an unbound name such as `yy`)
        IF IsBoolSpecial(c) THEN BoolSpecial(c)
        ELSE IF \A i \in 1..Len(c.rest) : PinnedHandles(c.rest[i].op)
        THEN [t |-> "cmp", left |-> c.left, rest |-> [i \in 1..Len(c.rest) |-> [op |-> Inverse(c.rest[i].op), right |-> c.rest[i].right]]]
        ELSE [t |-> "malformed"]
     ELSE
        \* only a single comparison is inverted (the negation of a chain is not a chain)
        IF vi = "tree" /\ IsBoolSpecial(c) THEN BoolSpecial(c)
        ELSE IF Len(c.rest) = 1
        THEN [t |-> "cmp", left |-> c.left, rest |-> <<[op |-> Inverse(c.rest[1].op), right |-> c.rest[1].right]>>]
        ELSE e
  ELSE e

RewriteV(e, vc, vi) == RewriteInvert(RewriteCombine(e, vc), vi)
Rewrite(e) == RewriteV(e, VariantCombine, VariantInvert)

(* ------------------------------------------------------------ environments *)
\* the assignments over which equivalence is decided
Atoms == {<<"s", "startswith", "a">>, <<"s", "startswith", "b">>, <<"r", "startswith", "a">>, <<"s", "endswith", "a">>}
AllAtoms == {<<r, f, l>> : r \in {"s", "r"}, f \in {"startswith", "endswith"}, l \in {"a", "b"}}
StrValues(tupleNames) == {[k |-> "s", v |-> "a"], [k |-> "s", v |-> "b"]} \cup (IF tupleNames THEN {[k |-> "t", vs |-> <<"a", "b">>]} ELSE {})
EnvsCallsWith(svs) ==
  {[atom |-> [x \in AllAtoms |-> IF x \in Atoms THEN f[x] ELSE FALSE], bool |-> [c |-> b], str |-> [p |-> sv],
    int |-> [x |-> 0, y |-> 0, z |-> 0], tup |-> [t |-> {}]] : f \in [Atoms -> BOOLEAN], b \in BOOLEAN, sv \in svs}
EnvsCalls(tupleNames) == EnvsCallsWith(StrValues(tupleNames))
EnvsTupleNames == EnvsCallsWith({[k |-> "t", vs |-> <<"a", "b">>]})
Dom == 0..2 \cup {BFalse, BTrue}
EnvsCmp == {[atom |-> [x \in AllAtoms |-> FALSE], bool |-> [c |-> FALSE], str |-> [p |-> [k |-> "s", v |-> "a"]],
             int |-> [x |-> a, y |-> b, z |-> c], tup |-> [t |-> tv]] : a \in Dom, b \in Dom, c \in Dom, tv \in {{0}, {0, 1}, {1, 2}}}

(* ------------------------------------------------------------ equivalence *)
Equivalent(e1, e2, As) == e2.t # "malformed" /\ \A A \in As : Eval(e1, A) = Eval(e2, A)
=============================================================================
