SPECIFICATION Spec
INVARIANT LemmaSubset
INVARIANT LemmaDecoysChangeNothing
CHECK_DEADLOCK FALSE
