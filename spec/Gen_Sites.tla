------------------------------ MODULE Gen_Sites ------------------------------
(***************************************************************************)
(* M2 generator for C06: a file holds N equally vulnerable sites; a result *)
(* file reports findings for a subset of them, or decoys.  The sites that  *)
(* must be rewritten are exactly those for which an open finding of the    *)
(* codemod's own rule is reported in this file.                            *)
(*   kind "subset"  findings of the codemod's rule for the sites reported  *)
(*        "rule"    the same locations reported under a foreign rule       *)
(*        "ghost"   the codemod's rule reported for another (absent) file  *)
(*        "status"  the codemod's rule, but the issue is resolved / closed *)
(*                  / reviewed                                             *)
(*        "tail"    the codemod's rule reported for another EXISTING file    *)
(*                  with the same content whose path is a tail of this     *)
(*                  file's path or has it as its tail (app.py vs           *)
(*                  services/app.py): nothing to do in THIS file           *)
(*        "inner"   (tools that report a line only) the finding names an   *)
(*                  inner line of a construct that spans several lines     *)
(***************************************************************************)
EXTENDS Naturals, FiniteSets, TLC

N == 3
Sites == 1..N
Kinds == {"subset", "rule", "ghost", "tail", "status", "inner"}

VARIABLES sc, exp, st

Scenarios ==
  {[kind |-> "subset", reported |-> S] : S \in SUBSET Sites}
  \cup {[kind |-> k, reported |-> Sites] : k \in Kinds \ {"subset"}}
  \cup {[kind |-> k, reported |-> {2}] : k \in Kinds \ {"subset"}}

\* a finding counts for site s of this file iff it is an open finding of the codemod's own rule located at s in this file
Counts(kind) == kind \in {"subset", "inner"}
MustRewrite(s) == IF Counts(s.kind) THEN s.reported ELSE {}

Init == sc \in Scenarios /\ exp = {} /\ st = "init"
Next == st = "init" /\ st' = "done" /\ exp' = MustRewrite(sc) /\ UNCHANGED sc
Spec == Init /\ [][Next]_<<sc, exp, st>>

LemmaSubset == exp \subseteq sc.reported
LemmaDecoysChangeNothing == (st = "done" /\ ~Counts(sc.kind)) => exp = {}
=============================================================================
