------------------------------ MODULE SqlParam ------------------------------
(***************************************************************************)
(* C08 - "SQL parameterization returns the same rows as the original query *)
(* for benign parameter values" (core_codemods/sql_parameterization.py).   *)
(*                                                                         *)
(* A query is  SELECT v FROM t WHERE <cond> { OR <cond> }  where a         *)
(* condition compares the text column k with a QUOTED value - a sequence   *)
(* of text characters and holes between two single quotes - or the numeric *)
(* column n with a BARE hole.  The Python expression that builds the query *)
(* is a sequence of PIECES: string literals and hole expressions, the       *)
(* literal text between two holes being cut into literals in one of        *)
(* several ways (SplitModes).                                              *)
(*                                                                         *)
(* Reference (grammar level): exactly the quoted values that hold a hole   *)
(* can become a `?` parameter, whose value is the concatenation of the     *)
(* value's items.                                                          *)
(* Transcription (piece level) of ExtractParameters.leave_Module: the      *)
(* implementation sees only pieces and counts quotes per piece             *)
(* (`_is_literal_start` with its modulo-2 flag, `_is_literal_end`, the     *)
(* push-back of an end piece that opens the next literal).                 *)
(* TLC decides on the whole bounded family that the transcription finds    *)
(* only complete quoted values (sound) and reports which of them it        *)
(* misses; the harness renders every query in several Python forms, runs   *)
(* the real codemod, compares the parameters it extracted with the         *)
(* transcription, and executes both programs on sqlite3.                   *)
(***************************************************************************)
EXTENDS Integers, Sequences, FiniteSets, TLC, SqlData     \* SqlData: ExtraQueries, longer queries sampled by the harness

CONSTANTS MaxConds, MaxItems,
          RuleVariant   \* "tree": the rule as implemented | "no-parity": quote parity ignored | "no-pushback": an end piece is never a start | "no-reset": the parity flag is not reset after a literal ended (non-vacuity)

SplitModes == {"none", "quotes", "after", "before"}
\* what the text character of a quoted value is: a letter, or a character that is special in one of the Python
\* string-building forms (`{` in f-strings and str.format, `%` in printf-style formatting) though not in SQL text
TextChars == {"a", "{", "}", "%"}

RECURSIVE SeqsUpTo(_, _)
SeqsUpTo(S, n) == IF n = 0 THEN {<<>>} ELSE SeqsUpTo(S, n - 1) \cup {Append(s, x) : s \in SeqsUpTo(S, n - 1), x \in S}

Values == {[q |-> TRUE, items |-> s] : s \in SeqsUpTo({"a", "h"}, MaxItems)} \cup {[q |-> FALSE, items |-> <<"h">>]}
Queries == UNION {[1..n -> Values] : n \in 1..MaxConds}

(* ------------------------------------------------------------ flat atoms *)
Txt(s) == [k |-> "txt", s |-> s, c |-> 0, tag |-> "-"]
Quote(c, tag) == [k |-> "q", s |-> "'", c |-> c, tag |-> tag]
Hole(c, j) == [k |-> "hole", s |-> "h", c |-> c, tag |-> ToString(j)]

ItemAtoms(c, items, tc) == [j \in 1..Len(items) |-> IF items[j] = "a" THEN Txt(tc) ELSE Hole(c, j)]
CondAtoms(c, v, tc) ==
  <<Txt(IF c = 1 THEN "SELECT v FROM t WHERE " ELSE " OR ")>> \o
  (IF v.q THEN <<Txt("k = "), Quote(c, "open")>> \o ItemAtoms(c, v.items, tc) \o <<Quote(c, "close")>>
   ELSE <<Txt("n = "), Hole(c, 1)>>)

RECURSIVE FlatFrom(_, _, _)
FlatFrom(qy, c, tc) == IF c > Len(qy) THEN <<>> ELSE CondAtoms(c, qy[c], tc) \o FlatFrom(qy, c + 1, tc)
Flat(qy, tc) == FlatFrom(qy, 1, tc)

(* ------------------------------------------------------------ pieces     *)
\* does a new literal start between atom a and the following atom b (both literal atoms)?
Cut(a, b, mode) ==
  CASE mode = "none"   -> FALSE
    [] mode = "quotes" -> a.k = "q" \/ b.k = "q"
    [] mode = "after"  -> a.k = "q"
    [] mode = "before" -> b.k = "q"

\* pieces: [lit |-> TRUE, atoms |-> <<...>>] or [lit |-> FALSE, atoms |-> <<hole>>]
RECURSIVE PiecesOf(_, _, _)
PiecesOf(atoms, mode, cur) ==
  IF atoms = <<>> THEN (IF cur = <<>> THEN <<>> ELSE <<[lit |-> TRUE, atoms |-> cur]>>)
  ELSE LET a == Head(atoms) IN
       IF a.k = "hole"
       THEN (IF cur = <<>> THEN <<>> ELSE <<[lit |-> TRUE, atoms |-> cur]>>) \o <<[lit |-> FALSE, atoms |-> <<a>>]>> \o PiecesOf(Tail(atoms), mode, <<>>)
       ELSE IF cur # <<>> /\ Cut(cur[Len(cur)], a, mode)
            THEN <<[lit |-> TRUE, atoms |-> cur]>> \o PiecesOf(Tail(atoms), mode, <<a>>)
            ELSE PiecesOf(Tail(atoms), mode, Append(cur, a))
Pieces(qy, mode) == PiecesOf(Flat(qy, "a"), mode, <<>>)
PiecesTc(qy, mode, tc) == PiecesOf(Flat(qy, tc), mode, <<>>)

QuoteIdx(p) == {i \in 1..Len(p.atoms) : p.atoms[i].k = "q"}
NQuotes(p) == Cardinality(QuoteIdx(p))
Max(S) == CHOOSE x \in S : \A y \in S : y <= x
Min(S) == CHOOSE x \in S : \A y \in S : y >= x

(* ------------------------------------------- transcription of the code   *)
IsLiteralStart(p, mod) == p.lit /\ (IF RuleVariant = "no-parity" THEN NQuotes(p) > 0 ELSE NQuotes(p) % 2 = mod)
IsLiteralEnd(p) == p.lit /\ NQuotes(p) > 0
IsSingleQuote(p) == p.lit /\ Len(p.atoms) = 1 /\ p.atoms[1].k = "q"

\* patterns found from piece i on: sequence of [s, e] (the middle is s+1..e-1)
RECURSIVE Extract(_, _, _)
Extract(P, i, mod) ==
  IF i > Len(P) THEN <<>>
  ELSE IF ~IsLiteralStart(P[i], mod) THEN Extract(P, i + 1, mod)
  ELSE LET Ends == {j \in (i + 1)..Len(P) : IsLiteralEnd(P[j])} IN
       IF Ends = {} THEN <<>>
       ELSE LET j == Min(Ends)
                pat == IF \E m \in (i + 1)..(j - 1) : ~P[m].lit THEN <<[s |-> i, e |-> j]>> ELSE <<>>
            IN IF RuleVariant # "no-pushback" /\ IsLiteralStart(P[j], 0) /\ ~IsSingleQuote(P[j])
               THEN pat \o Extract(P, j, 0)        \* the end piece opens the next literal: it is looked at again
               ELSE pat \o Extract(P, j + 1, IF RuleVariant = "no-reset" THEN mod ELSE 1)

Found(qy, mode) == Extract(Pieces(qy, mode), 1, 1)

\* the quote a pattern takes for the opening one, and which condition it parameterizes
OpeningQuote(P, pat) == P[pat.s].atoms[Max(QuoteIdx(P[pat.s]))]
FoundConds(qy, mode) == LET P == Pieces(qy, mode)  F == Found(qy, mode) IN {OpeningQuote(P, F[x]).c : x \in 1..Len(F)}

(* ------------------------------------------------------------ reference  *)
Parameterizable(qy) == {c \in 1..Len(qy) : qy[c].q /\ \E j \in 1..Len(qy[c].items) : qy[c].items[j] = "h"}

VARIABLES qy, mode, tc, exp, st
\* the sampled long queries are explored in one layout only (no extra cuts, letter text)
Long(q) == q \in ExtraQueries /\ q \notin Queries
Init == /\ qy \in Queries \cup ExtraQueries
        /\ mode \in (IF Long(qy) THEN {"none"} ELSE SplitModes)
        /\ st = "init"
        /\ tc \in (IF ~Long(qy) /\ \E c \in 1..Len(qy) : qy[c].q /\ \E j \in 1..Len(qy[c].items) : qy[c].items[j] = "a" THEN TextChars ELSE {"a"})
        /\ exp = [found |-> {}, ideal |-> {}, pieces |-> <<>>]
Step == /\ st = "init" /\ st' = "done" /\ UNCHANGED <<qy, mode, tc>>
        /\ exp' = [found |-> FoundConds(qy, mode), ideal |-> Parameterizable(qy), pieces |-> PiecesTc(qy, mode, tc)]
Spec == Init /\ [][Step]_<<qy, mode, tc, exp, st>>

\* every pattern the piece-level rule finds starts at the OPENING quote of a quoted value that holds a hole
C08_PatternsAreCompleteQuotedValues ==
  LET P == Pieces(qy, mode)  F == Found(qy, mode) IN
  \A x \in 1..Len(F) : /\ OpeningQuote(P, F[x]).tag = "open"
                       /\ OpeningQuote(P, F[x]).c \in Parameterizable(qy)
                       /\ P[F[x].e].atoms[Min(QuoteIdx(P[F[x].e]))] = Quote(OpeningQuote(P, F[x]).c, "close")
\* no quoted value is parameterized twice
LemmaNoDuplicate == LET F == Found(qy, mode) IN Cardinality(FoundConds(qy, mode)) = Len(F)
\* on this family the piece-level rule also finds every parameterizable value
LemmaComplete == FoundConds(qy, mode) = Parameterizable(qy)
=============================================================================
