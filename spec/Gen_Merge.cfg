SPECIFICATION Spec
INVARIANT LemmaTotal
INVARIANT LemmaCommutes
INVARIANT LemmaAssoc
CHECK_DEADLOCK FALSE
