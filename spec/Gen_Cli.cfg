SPECIFICATION Spec
INVARIANT L1
INVARIANT L2
INVARIANT L3
INVARIANT L4
INVARIANT L5
INVARIANT L6
CHECK_DEADLOCK FALSE
