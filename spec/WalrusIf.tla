------------------------------ MODULE WalrusIf ------------------------------
(***************************************************************************)
(* C08 - use-walrus-if (core_codemods/use_walrus_if.py).                    *)
(*                                                                         *)
(*     x = compute()                 if (x := compute()) ...:              *)
(*     if <test on x>:        ==>        ...                               *)
(*         ...                                                             *)
(* and, as an optimisation, when the variable "is not used again" the      *)
(* assignment is dropped altogether:  if compute() ...:                    *)
(*                                                                         *)
(* The walrus form always binds x exactly as the assignment did.  Dropping *)
(* the binding preserves behaviour only if NOTHING reads x afterwards -     *)
(* and a name can be read from outside the scope that assigns it: a name   *)
(* declared `global` or `nonlocal` in a function, an attribute of a class  *)
(* body.  This module enumerates where the construct stands and who reads  *)
(* x, transcribes the rule that decides the dropping, and lets TLC decide  *)
(* that it drops only bindings nobody reads.                               *)
(*   RuleVariant = "pinned": the pinned commit (accesses counted in the    *)
(*                 assigning scope only)                                   *)
(*   RuleVariant = "tree":   after the fix: commit (and the name is        *)
(*                 private to that scope)                                  *)
(***************************************************************************)
EXTENDS Naturals, FiniteSets, TLC

CONSTANT RuleVariant

Scopes == {"module", "function", "global", "nonlocal", "class"}
Tests  == {"name", "not", "isnone", "eq", "ne"}
Values == {"zero", "one", "none"}              \* what compute() returns (both branches, both comparison outcomes)
InScopeReads == {"body", "else", "after"}      \* reads in the scope of the assignment itself
Outside == "outside"                           \* a read through the global / enclosing / class namespace, after the construct ran

CanReadOutside(s) == s \in {"global", "nonlocal", "class"}

Programs == {[scope |-> s, test |-> t, value |-> v, reads |-> R] :
               s \in Scopes, t \in Tests, v \in Values, R \in SUBSET (InScopeReads \cup {Outside})}
WellFormed(p) == (Outside \in p.reads) => CanReadOutside(p.scope)

\* the rule of leave_If: `_single_access` counts the accesses recorded for the name in the assigning scope (the test
\* itself is one of them)
AccessesInScope(p) == 1 + Cardinality(p.reads \cap InScopeReads)
Private(p) == p.scope \in {"module", "function"}
RuleDrops(p) ==
  IF RuleVariant = "pinned" THEN AccessesInScope(p) = 1
  ELSE AccessesInScope(p) = 1 /\ Private(p)

\* dropping the binding is behaviour preserving iff nobody reads it
SafeToDrop(p) == p.reads = {}

VARIABLES p, exp, st
Init == p \in {q \in Programs : WellFormed(q)} /\ exp = [drops |-> FALSE] /\ st = "init"
Step == st = "init" /\ st' = "done" /\ UNCHANGED p /\ exp' = [drops |-> RuleDrops(p)]
Spec == Init /\ [][Step]_<<p, exp, st>>

C08_DropsOnlyUnreadBindings == RuleDrops(p) => SafeToDrop(p)
=============================================================================
