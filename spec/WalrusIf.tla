------------------------------ MODULE WalrusIf ------------------------------
(***************************************************************************)
(* C08 - use-walrus-if (core_codemods/use_walrus_if.py).                    *)
(*                                                                         *)
(*     x = compute()                 if (x := compute()) ...:              *)
(*     if <test on x>:        ==>        ...                               *)
(*         ...                                                             *)
(* and, as an optimisation, when the variable "is not used again" the      *)
(* assignment is dropped altogether:  if compute() ...:                    *)
(*                                                                         *)
(* The walrus form always binds x exactly as the assignment did.  Dropping *)
(* the binding preserves behaviour only if NOTHING reads x afterwards -     *)
(* and a name can be read from outside the scope that assigns it: a name   *)
(* declared `global` or `nonlocal` in a function, an attribute of a class  *)
(* body.  This module enumerates where the construct stands and who reads  *)
(* x, transcribes the rule that decides the dropping, and lets TLC decide  *)
(* that it drops only bindings nobody reads.                               *)
(*   RuleVariant = "pinned":  the pinned commit (accesses counted in the   *)
(*                 assigning scope only)                                   *)
(*   RuleVariant = "private": after the first fix: commit (and the name is *)
(*                 private to that scope) - reads from a nested function   *)
(*                 are still not counted                                   *)
(*   RuleVariant = "noaug":   all references of the binding are counted,   *)
(*                 those from nested scopes included - but an augmented    *)
(*                 assignment `x += 1` after the construct, which reads x, *)
(*                 is not recorded as a reference                          *)
(*   RuleVariant = "tree":    ... and augmented assignments count as reads *)
(* A dropped binding is replaced by its value: inside `not ...` or a       *)
(* comparison an operator expression then needs parentheses of its own     *)
(* (vkind = "op"); the harness executes every program before and after.    *)
(***************************************************************************)
EXTENDS Naturals, FiniteSets, TLC

CONSTANT RuleVariant

Scopes == {"module", "function", "global", "nonlocal", "class"}
Tests  == {"name", "not", "isnone", "eq", "ne"}
Values == {"zero", "one", "none"}              \* what compute() returns (both branches, both comparison outcomes)
VKinds == {"atom", "op"}                       \* the assigned value: a call | an operator expression (`compute() or fallback()`)
InScopeReads == {"body", "else", "after"}      \* reads in the scope of the assignment itself
Nested == "nested"                             \* a read from a function defined inside that scope (a closure)
Outside == "outside"                           \* a read through the global / enclosing / class namespace, after the construct ran
Aug == "aug"                                   \* `x += 1` after the construct: reads x although name resolution records no access

CanReadOutside(s) == s \in {"global", "nonlocal", "class"}

Programs == {[scope |-> s, test |-> t, value |-> v, vkind |-> vk, reads |-> R] :
               s \in Scopes, t \in Tests, v \in Values, vk \in VKinds, R \in SUBSET (InScopeReads \cup {Outside, Nested, Aug})}
WellFormed(p) == /\ (Outside \in p.reads) => CanReadOutside(p.scope)
                 /\ (Nested \in p.reads) => p.scope \in {"module", "function"}
                 /\ (Aug \in p.reads) => p.value # "none"          \* `None += 1` raises with or without the rewrite

\* the rule of leave_If: `_single_access` counts the accesses recorded for the name in the assigning scope (the test
\* itself is one of them)
AccessesInScope(p) == 1 + Cardinality(p.reads \cap InScopeReads)
RecordedReferences(p) == 1 + Cardinality(p.reads \cap (InScopeReads \cup {Nested}))     \* of the binding, from any scope nested in its own
References(p) == RecordedReferences(p) + (IF Aug \in p.reads THEN 1 ELSE 0)
Private(p) == p.scope \in {"module", "function"}
RuleDrops(p) ==
  CASE RuleVariant = "pinned"  -> AccessesInScope(p) = 1
    [] RuleVariant = "private" -> AccessesInScope(p) = 1 /\ Private(p)
    [] RuleVariant = "noaug"   -> RecordedReferences(p) = 1 /\ Private(p)
    [] OTHER                   -> References(p) = 1 /\ Private(p)

\* dropping the binding is behaviour preserving iff nobody reads it
SafeToDrop(p) == p.reads = {}

VARIABLES p, exp, st
Init == p \in {q \in Programs : WellFormed(q)} /\ exp = [drops |-> FALSE] /\ st = "init"
Step == st = "init" /\ st' = "done" /\ UNCHANGED p /\ exp' = [drops |-> RuleDrops(p)]
Spec == Init /\ [][Step]_<<p, exp, st>>

C08_DropsOnlyUnreadBindings == RuleDrops(p) => SafeToDrop(p)
=============================================================================
