---------------------------- MODULE MC_ExprRewrite ----------------------------
(***************************************************************************)
(* M1 for C08: every expression of the bounded algebra x every assignment: *)
(* Eval(Rewrite(e)) = Eval(e), exceptions included.  The same module is    *)
(* the generator for the conformance replay (spec <-> code): the dump      *)
(* holds e and Rewrite(e); the harness renders e, runs the real codemods   *)
(* and parses the result back into the algebra.                            *)
(***************************************************************************)
EXTENDS ExprRewrite, Randomization

CONSTANTS TupleNames, \* may a string-typed argument name hold a tuple (known finding when TRUE)
          Depth,      \* nesting depth of boolean operations enumerated exhaustively
          SampleD     \* number of trees one level deeper, sampled with TLC's seed

VARIABLES e, res, st

Call(recv, fn, arg) == [t |-> "call", recv |-> recv, fn |-> fn, arg |-> arg]
Lit(v) == [k |-> "lit", v |-> v]
Leaves ==
  { Call("s", "startswith", Lit("a")), Call("s", "startswith", Lit("b")),
    Call("s", "startswith", [k |-> "tup", vs |-> <<Lit("a"), Lit("b")>>]),
    Call("s", "startswith", [k |-> "name", n |-> "p"]),
    Call("r", "startswith", Lit("a")),
    Call("s", "endswith", Lit("a")),
    [t |-> "name", n |-> "c"] }

RECURSIVE Trees(_)
Trees(d) == IF d = 0 THEN Leaves
            ELSE LET T == Trees(d - 1) IN
                 T \cup {[t |-> "bop", op |-> o, l |-> a, r |-> b] : o \in {"and", "or"}, a \in T, b \in T}

Base == Trees(Depth)
Deeper == IF SampleD = 0 THEN {}
          ELSE RandomSubset(SampleD, {[t |-> "bop", op |-> o, l |-> a, r |-> b] : o \in {"and", "or"}, a \in Base, b \in Base})
ExprsA == Base \cup Deeper

(* comparisons *)
V(n) == [k |-> "var", n |-> n]
I(v) == [k |-> "int", v |-> v]
BL(v) == [k |-> "blit", v |-> v]
RelOps == {"==", "!=", "<", ">", "<=", ">=", "is", "is not"}
MemOps == {"in", "not in"}
Cmp(l, rest) == [t |-> "not", e |-> [t |-> "cmp", left |-> l, rest |-> rest]]
ExprsB ==
     {Cmp(V("x"), <<[op |-> o, right |-> r]>>) : o \in RelOps, r \in {V("y"), I(1), BL(BTrue), BL(BFalse)}}
  \cup {Cmp(V("x"), <<[op |-> o, right |-> [k |-> "tupv", n |-> "t"]]>>) : o \in MemOps}
  \cup {Cmp(V("x"), <<[op |-> o1, right |-> V("y")], [op |-> o2, right |-> V("z")]>>) : o1 \in RelOps, o2 \in RelOps}
  \cup {Cmp(V("x"), <<[op |-> o1, right |-> V("y")], [op |-> o2, right |-> [k |-> "tupv", n |-> "t"]]>>) : o1 \in RelOps, o2 \in MemOps}

AsFor(x) == IF x.t = "not" /\ x.e.t = "cmp" THEN EnvsCmp ELSE EnvsCalls(TupleNames)

Pending == [rw |-> [t |-> "pending"], ideal |-> [t |-> "pending"], eq |-> TRUE]
Init == e \in ExprsA \cup ExprsB /\ res = Pending /\ st = "init"
Step == /\ st = "init" /\ st' = "done" /\ UNCHANGED e
        /\ LET rw == Rewrite(e) IN
           res' = [rw |-> rw, ideal |-> RewriteV(e, "repaired", "repaired"), eq |-> Equivalent(e, rw, AsFor(e))]
Spec == Init /\ [][Step]_<<e, res, st>>

\* C08 on the transcribed rules: the rewritten expression behaves like the original under every assignment
C08_RewritePreservesBehaviour == res.eq
=============================================================================
