--------------------------- MODULE Gen_PathFilter ---------------------------
(* M2 generator for C05: include/exclude lists x mode over a fixed universe tree -> files that may / must change. *)
EXTENDS PathFilter, PathData, TLC

VARIABLES sc, exp

Lists(n) == UNION {[1..k -> 1..Len(Pats)] : k \in 0..n}
PatSeq(l) == [i \in 1..Len(l) |-> Pats[l[i]]]

Scenarios ==
  {[mode |-> m, inc |-> i, exc |-> e] : m \in {"ff", "sast"}, i \in Lists(MaxInc), e \in Lists(MaxExc)}
  \cup ExtraScenarios

Pending == [may |-> {0}, must |-> {0}]
Init == sc \in Scenarios /\ exp = Pending
Step == /\ exp = Pending
        /\ exp' = [may  |-> {k \in 1..Len(Tree) : May(Tree[k], sc.mode, PatSeq(sc.inc), PatSeq(sc.exc))},
                   \* a selected file must change only if the line holding its trigger is itself permitted (C13)
                   must |-> {k \in 1..Len(Tree) :
                               /\ Must(Tree[k], sc.mode, PatSeq(sc.inc), PatSeq(sc.exc))
                               /\ Permitted(TrigLine[sc.mode], LinesOf(PatSeq(sc.inc), Tree[k].rel),
                                                                LinesOf(PatSeq(sc.exc), Tree[k].rel))}]
        /\ UNCHANGED sc
Spec == Init /\ [][Step]_<<sc, exp>>

MustImpliesMay == exp # Pending => exp.must \subseteq exp.may
NoSymlinkEver  == exp # Pending => \A k \in exp.may : ~Tree[k].symlink
LineNeverExcludesFile ==   \* dropping the `:line` patterns from an exclude list changes nothing at file level
  exp # Pending =>
    LET e2 == SelectSeq(PatSeq(sc.exc), LAMBDA p : ~HasLine(p)) IN
    e2 # <<>> => exp.may = {k \in 1..Len(Tree) : May(Tree[k], sc.mode, PatSeq(sc.inc), e2)}
=============================================================================
