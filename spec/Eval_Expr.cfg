SPECIFICATION ESpec
CONSTANTS
  VariantCombine = "repaired"
  VariantInvert = "repaired"
CHECK_DEADLOCK FALSE
