SPECIFICATION TraceSpec
INVARIANT Emit
INVARIANT TraceAccepted
CHECK_DEADLOCK FALSE
