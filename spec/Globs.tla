------------------------------- MODULE Globs -------------------------------
(***************************************************************************)
(* Glob matching over strings represented as sequences of code points      *)
(* (TLC cannot index strings).  This is the *reference* meaning of a       *)
(* pattern as the property statements use it: a pattern matches a string   *)
(* iff it matches the WHOLE string; `*` stands for any string (including   *)
(* `/`), `?` for exactly one character, every other character for itself.  *)
(* Written from the property text (C05, C13, C17), not from the code.      *)
(***************************************************************************)
EXTENDS Naturals, Sequences, FiniteSets

STAR  == 42
QM    == 63
COLON == 58
SLASH == 47

\* qm = TRUE: `?` is a one-character wildcard (path patterns, fnmatch style);
\* qm = FALSE: only `*` is special (codemod-id patterns).
RECURSIVE GM(_, _, _, _, _)
GM(p, s, i, j, qm) ==
  IF i > Len(p) THEN j > Len(s)
  ELSE IF p[i] = STAR
       THEN GM(p, s, i + 1, j, qm) \/ (j <= Len(s) /\ GM(p, s, i, j + 1, qm))
       ELSE /\ j <= Len(s)
            /\ ((qm /\ p[i] = QM) \/ p[i] = s[j])
            /\ GM(p, s, i + 1, j + 1, qm)

GlobMatch(p, s) == GM(p, s, 1, 1, TRUE)    \* path patterns
StarMatch(p, s) == GM(p, s, 1, 1, FALSE)   \* codemod-id patterns

HasStar(p) == \E i \in 1..Len(p) : p[i] = STAR

(* ---- `pattern:line` forms (C05, C13) ---- *)
ColonAt(p)  == {i \in 1..Len(p) : p[i] = COLON}
HasLine(p)  == Cardinality(ColonAt(p)) = 1
ColonPos(p) == CHOOSE i \in ColonAt(p) : TRUE
FilePart(p) == IF HasLine(p) THEN SubSeq(p, 1, ColonPos(p) - 1) ELSE p

Digit(c) == c - 48
RECURSIVE ToNat(_, _)
ToNat(ds, acc) == IF ds = <<>> THEN acc ELSE ToNat(Tail(ds), acc * 10 + Digit(Head(ds)))
LinePart(p) == ToNat(SubSeq(p, ColonPos(p) + 1, Len(p)), 0)

(* Lemmas checked by MC_Globs *)
GlobReflexiveOnLiterals(S) == \A s \in S : (~HasStar(s) /\ ~\E i \in 1..Len(s) : s[i] = QM) => GlobMatch(s, s)
StarAlone(S) == \A s \in S : GlobMatch(<<STAR>>, s)
=============================================================================
