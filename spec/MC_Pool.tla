------------------------------ MODULE MC_Pool ------------------------------
EXTENDS Naturals, Sequences
CONSTANTS N, W, Bug
VARIABLES pending, running, finishedSeq, delivered
MCTasks == [i \in 1..N |-> i]
MCOutcome(t) == t * 7
INSTANCE Pool WITH Tasks <- MCTasks, Outcome <- MCOutcome
=============================================================================
