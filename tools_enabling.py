#!/venv/bin/python
"""Measure the enabling pairs (harness/enabling.py) on the current tree and record them in corpus/c09_enabling.json."""
import os
import sys

sys.path.insert(0, os.path.dirname(os.path.abspath(__file__)))
from harness import enabling  # noqa: E402

pairs = enabling.find_pairs(int(sys.argv[1]) if len(sys.argv) > 1 else 6)
enabling.record(pairs)
print(len(pairs), "enabling pairs")
for p in pairs:
    print(p["k1"].split("/")[-1], "->", p["k2"].split("/")[-1], "|", p["seed"].split("|")[-1][:70])
