#!/usr/bin/env python3
"""Evaluate a seeded breaking change: confirm its demonstration in a scratch worktree, run the checks against it on
/repo (patch applied and reverted straight afterwards), record the outcome under /verif/seeded/<id>/.

usage: tools_seed.py <seed-id> <property> <worktree> <diff> <demo> [--checks C10,C15] [--tier quick] [--needs "..."]
"""
import argparse
import json
import os
import shutil
import subprocess
import sys
import time

ENV = dict(os.environ, PATH="/venv/bin:" + os.environ["PATH"], SEMGREP_SEND_METRICS="off", SEMGREP_ENABLE_VERSION_CHECK="0", PYTHONDONTWRITEBYTECODE="1")


def sh(cmd, cwd=None, env=None, timeout=3600):
    p = subprocess.run(cmd, shell=True, cwd=cwd, env=env or ENV, capture_output=True, text=True, timeout=timeout)
    return p.returncode, p.stdout + p.stderr


def main():
    ap = argparse.ArgumentParser()
    ap.add_argument("seed_id"); ap.add_argument("prop"); ap.add_argument("worktree"); ap.add_argument("diff"); ap.add_argument("demo")
    ap.add_argument("--checks", default=None); ap.add_argument("--tier", default="quick"); ap.add_argument("--needs", default="")
    ap.add_argument("--demo-cwd", default=None); ap.add_argument("--skip-demo", action="store_true"); ap.add_argument("--on-repo", action="store_true")
    a = ap.parse_args()
    checks = (a.checks or a.prop).split(",")
    out = {"seed": a.seed_id, "property": a.prop, "needs": a.needs, "ran": []}
    wt = a.worktree
    if not a.skip_demo:
        sh("git checkout -- . && git clean -fdq src tests", cwd=wt)
        rc, o = sh(f"git apply --check {a.diff}", cwd=wt)
        if rc:
            print("diff does not apply:", o); return 2
        env = dict(ENV, PYTHONPATH=f"{wt}/src")
        rc0, o0 = sh(f"/venv/bin/python {a.demo}", cwd=a.demo_cwd or wt, env=env)
        sh(f"git apply {a.diff}", cwd=wt)
        rc1, o1 = sh(f"/venv/bin/python {a.demo}", cwd=a.demo_cwd or wt, env=env)
        sh("git checkout -- .", cwd=wt)
        out["demo_without_change"] = rc0; out["demo_with_change"] = rc1
        out["ran"].append(f"demo in scratch worktree: exit {rc0} without the change, exit {rc1} with it")
        print(f"demo: without={rc0} with={rc1}")
        if rc0 != 0 or rc1 == 0:
            print("DEMO NOT CONFIRMED"); print(o0[-500:]); print(o1[-500:]); return 3
    # checks against the scratch worktree with the patch applied (VERIF_REPO), so /repo stays untouched and several
    # evaluations can run side by side; --on-repo applies the patch to /repo itself and reverts it afterwards
    target = "/repo" if a.on_repo else wt
    if a.on_repo:
        rc, o = sh("git status --porcelain", cwd="/repo")
        if o.strip():
            print("/repo is dirty, refusing:", o); return 2
    else:
        sh("git checkout -- . && git merge -q --ff-only $(git -C /repo rev-parse HEAD) 2>/dev/null || git checkout -q --detach $(git -C /repo rev-parse HEAD)", cwd=wt)
    rc, o = sh(f"git apply {a.diff}", cwd=target)
    if rc:
        print("cannot apply:", o); return 2
    out["detected_by"] = []
    env = dict(ENV, VERIF_REPO=target, VERIF_SCRATCH_BASE="/tmp")
    try:
        for c in checks:
            t = time.time()
            rc, o = sh(f"./check {c} {a.tier}", cwd="/verif", timeout=7200, env=env)
            viol = [ln for ln in o.splitlines() if ln.startswith("VIOLATION")]
            what = [ln.strip() for ln in o.splitlines() if ln.strip().startswith("what:")][:3]
            out["ran"].append(f"./check {c} {a.tier}: exit {rc}, {len(viol)} VIOLATION line(s), {time.time()-t:.0f}s")
            print(f"check {c}: exit {rc}, {len(viol)} violations"); [print("   ", w[:300]) for w in what]
            if rc == 1 and viol:
                out["detected_by"].append({"check": c, "tier": a.tier, "violations": len(viol), "example": what[:2]})
            if rc == 2:
                print(o[-1500:])
    finally:
        sh("git checkout -- .", cwd=target)
    d = f"/verif/seeded/{a.seed_id}"
    os.makedirs(d, exist_ok=True)
    shutil.copy(a.diff, f"{d}/patch.diff")
    shutil.copy(a.demo, f"{d}/demo.py")
    out["detected"] = bool(out["detected_by"])
    json.dump(out, open(f"{d}/meta.json", "w"), indent=1)
    print("recorded in", d, "detected:", out["detected"])
    return 0


if __name__ == "__main__":
    sys.exit(main())
