"""Apalache (symbolic model checker) runs: inductive-invariant checks of small integer / finite-set modules."""
from __future__ import annotations

import re
import shutil
import subprocess
import time

from .common import scratch
from .tlc import SPEC_DIR


def available() -> bool:
    return shutil.which("apalache-mc") is not None


def check(module_text: str, module: str, *, init: str, inv: str, length: int, cinit: str | None = None, timeout: int = 900) -> dict:
    """{'ok': bool, 'error': bool (a counterexample was found), 'wall_s', 'tail'}"""
    d = scratch("apa")
    (d / f"{module}.tla").write_text(module_text)
    cmd = ["apalache-mc", "check", f"--init={init}", f"--inv={inv}", f"--length={length}", f"--out-dir={d / 'out'}"]
    if cinit:
        cmd.append(f"--cinit={cinit}")
    cmd.append(f"{module}.tla")
    t0 = time.time()
    try:
        p = subprocess.run(cmd, cwd=d, capture_output=True, text=True, timeout=timeout)
        out = p.stdout + p.stderr
        rc = p.returncode
    except subprocess.TimeoutExpired:
        out, rc = "timeout", -1
    shutil.rmtree(d, ignore_errors=True)
    m = re.search(r"EXITCODE: (\w+)(?: \((\d+)\))?", out)
    return {"ok": rc == 0 and bool(m) and m.group(1) == "OK", "error": bool(m) and m.group(2) == "12", "wall_s": round(time.time() - t0, 1), "tail": out[-600:]}


def inductive(module: str, *, cinit: str, init: str, ind_init: str, ind_inv: str, goal: str, mutate=None) -> list[dict]:
    """The three obligations: Init => IndInv;  IndInv /\\ Next => IndInv';  IndInv => goal."""
    text = (SPEC_DIR / f"{module}.tla").read_text()
    if mutate:
        text = mutate(text)
    return [
        dict(check(text, module, init=init, inv=ind_inv, length=0, cinit=cinit), obligation="Init => IndInv"),
        dict(check(text, module, init=ind_init, inv=ind_inv, length=1, cinit=cinit), obligation="IndInv /\\ Next => IndInv'"),
        dict(check(text, module, init=ind_init, inv=goal, length=0, cinit=cinit), obligation=f"IndInv => {goal}"),
    ]
