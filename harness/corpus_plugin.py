"""pytest plugin: records the inputs the repository's own codemod tests feed to run_and_assert.

Used once to build /verif/corpus/seeds.json (vendored, so checks do not depend on the tests directory):
  cd /repo && PYTHONPATH=/verif CORPUS_OUT=... pytest tests/codemods -p harness.corpus_plugin -n 16
Each xdist worker writes its own shard; merge with harness.extract_corpus.
"""
from __future__ import annotations

import json
import os
from pathlib import Path
from textwrap import dedent

_records: list[dict] = []
_current = {"nodeid": None}


def pytest_configure(config):
    from codemodder.codemods.test import utils

    def wrap(cls, sast: bool):
        orig = cls.run_and_assert

        def run_and_assert(self, tmpdir, input_code, expected, *args, **kwargs):
            rec = {
                "test": _current["nodeid"],
                "codemod": getattr(self.codemod, "id", None),
                "input": dedent(input_code),
                "expected": dedent(expected),
                "ext": self.file_extension,
                "sast": sast,
                "tool": getattr(self, "tool", None) if sast else None,
                "results": kwargs.get("results") if sast else None,
                "num_changes": kwargs.get("num_changes", args[0] if args else 1),
                "lines_to_exclude": kwargs.get("lines_to_exclude"),
                "files": [os.path.relpath(str(f), str(kwargs.get("root") or tmpdir)) for f in (kwargs.get("files") or [])],
                "ok": False,
            }
            _records.append(rec)
            out = orig(self, tmpdir, input_code, expected, *args, **kwargs)
            rec["ok"] = True
            return out

        cls.run_and_assert = run_and_assert

    wrap(utils.BaseCodemodTest, False)
    wrap(utils.BaseSASTCodemodTest, True)


def pytest_runtest_setup(item):
    _current["nodeid"] = item.nodeid


def pytest_sessionfinish(session, exitstatus):
    out = os.environ.get("CORPUS_OUT")
    if not out:
        return
    wid = os.environ.get("PYTEST_XDIST_WORKER", "main")
    Path(out).mkdir(parents=True, exist_ok=True)
    (Path(out) / f"shard-{wid}.json").write_text(json.dumps(_records))
