"""Invoke TLC and read back what it found."""
from __future__ import annotations

import os
import re
import shutil
import subprocess
import tempfile
import time
from dataclasses import dataclass, field
from pathlib import Path

from . import tlaval

VERIF = Path(__file__).resolve().parent.parent
SPEC_DIR = VERIF / "spec"
JAR = "/opt/veriftools/tla/tla2tools.jar"
DEPS = "/opt/veriftools/tla/CommunityModules-deps.jar"


class TlcFailure(RuntimeError):
    """TLC could not run the model (parse error, crash, timeout): machinery failure, never a verdict."""


@dataclass
class TlcResult:
    returncode: int
    output: str
    generated: int = 0
    distinct: int = 0
    depth: int = 0
    wall_s: float = 0.0
    violated: list = field(default_factory=list)  # [(kind, name, [states])]
    dump: list = field(default_factory=list)
    coverage: dict = field(default_factory=dict)

    @property
    def ok(self) -> bool:
        return self.returncode == 0 and not self.violated


_ERR_INV = re.compile(r"Error: Invariant (\S+) is violated")
_ERR_PROP = re.compile(r"Error: (?:Action|Temporal) propert(?:y|ies) (\S+)? ?(?:is|were) violated")
_STATE_HDR = re.compile(r"^State (\d+): (.*)$", re.M)


def _parse_violations(out: str):
    """Split TLC output into violations with their error traces."""
    res = []
    # positions of error headers
    heads = []
    for m in re.finditer(r"^Error: (.*)$", out, re.M):
        heads.append((m.start(), m.group(1)))
    for idx, (pos, msg) in enumerate(heads):
        end = heads[idx + 1][0] if idx + 1 < len(heads) else len(out)
        chunk = out[pos:end]
        m = re.match(r"Error: Invariant (\S+) is violated", chunk)
        kind = None
        name = None
        if m:
            kind, name = "invariant", m.group(1).rstrip(".")
        else:
            m = re.match(r"Error: Action property (\S+) is violated", chunk)
            if m:
                kind, name = "action", m.group(1).rstrip(".")
            elif "Temporal properties were violated" in chunk:
                kind, name = "temporal", "liveness"
            elif "Deadlock reached" in chunk:
                kind, name = "deadlock", "deadlock"
            elif chunk.startswith("Error: The behavior up to this point is") or chunk.startswith(
                "Error: The following behavior"
            ):
                continue
            elif "Evaluating assumption" in chunk or "Assumption" in chunk:
                kind, name = "assumption", chunk.splitlines()[0]
            elif "The first argument of Assert evaluated to FALSE" in chunk:
                kind, name = "assert", chunk.splitlines()[0:3]
        if kind is None:
            continue
        # states follow (possibly under the next "Error: The behavior up to this point is:")
        tail = out[pos:]
        nxt = re.search(r"^Error: (?!The behavior up to this point|The following behavior)", tail[7:], re.M)
        region = tail[: nxt.start() + 7] if nxt else tail
        states = []
        hs = list(_STATE_HDR.finditer(region))
        for j, h in enumerate(hs):
            body_end = hs[j + 1].start() if j + 1 < len(hs) else len(region)
            body = region[h.end():body_end]
            # cut at blank line
            body = body.split("\n\n")[0]
            try:
                states.append({"n": int(h.group(1)), "action": h.group(2), "vars": tlaval.parse_state(body.strip())})
            except tlaval.TlaParseError:
                states.append({"n": int(h.group(1)), "action": h.group(2), "raw": body.strip()})
        res.append((kind, name, states))
    return res


def run_tlc(
    module_dir: Path,
    module: str,
    cfg: str | None = None,
    *,
    workers: int | str = "auto",
    timeout: int = 1200,
    dump: bool = False,
    cont: bool = False,
    coverage: bool = False,
    simulate: str | None = None,
    depth: int | None = None,
    seed: int | None = None,
    env: dict | None = None,
    deadlock: bool = False,
    java_opts: list[str] | None = None,
    extra: list[str] | None = None,
) -> TlcResult:
    module_dir = Path(module_dir)
    meta = tempfile.mkdtemp(prefix="tlcmeta-", dir=os.environ.get("VERIF_SCRATCH", None))
    dump_file = os.path.join(meta, "dump.txt")
    lib = os.pathsep.join([str(SPEC_DIR), str(module_dir)])
    cmd = [
        "java",
        "-XX:+UseParallelGC",
        "-Xmx6g",
        "-Xss256m",
        f"-DTLA-Library={lib}",
    ]
    cmd += java_opts or []
    cmd += ["-cp", f"{JAR}:{DEPS}", "tlc2.TLC", "-metadir", meta, "-noGenerateSpecTE"]
    cmd += ["-workers", str(workers)]
    if cfg:
        cmd += ["-config", cfg]
    if dump:
        cmd += ["-dump", dump_file]
    if cont:
        cmd += ["-continue"]
    if coverage:
        cmd += ["-coverage", "1"]
    if simulate:
        cmd += ["-simulate", simulate]
    if depth is not None:
        cmd += ["-depth", str(depth)]
    if seed is not None:
        cmd += ["-seed", str(seed)]
    if not deadlock:
        cmd += ["-deadlock"]  # -deadlock DISABLES deadlock checking
    cmd += extra or []
    cmd += [module]
    e = dict(os.environ)
    e.update(env or {})
    t0 = time.time()
    try:
        p = subprocess.run(cmd, cwd=module_dir, capture_output=True, text=True, timeout=timeout, env=e)
    except subprocess.TimeoutExpired as ex:
        shutil.rmtree(meta, ignore_errors=True)
        raise TlcFailure(f"TLC timed out after {timeout}s on {module}") from ex
    out = p.stdout + p.stderr
    res = TlcResult(returncode=p.returncode, output=out, wall_s=time.time() - t0)
    m = re.findall(r"(\d+) states generated, (\d+) distinct states found", out)
    if m:
        res.generated, res.distinct = int(m[-1][0]), int(m[-1][1])
    m = re.search(r"The depth of the complete state graph search is (\d+)", out)
    if m:
        res.depth = int(m.group(1))
    res.violated = _parse_violations(out)
    if dump and os.path.exists(dump_file):
        with open(dump_file) as f:
            res.dump = tlaval.parse_dump(f.read())
    elif dump and os.path.exists(dump_file + ".dump"):
        with open(dump_file + ".dump") as f:
            res.dump = tlaval.parse_dump(f.read())
    if coverage:
        for cm in re.finditer(r"^<(\w+) line \d+, col \d+ to line \d+, col \d+ of module (\w+)>: (\d+):(\d+)", out, re.M):
            res.coverage[cm.group(1)] = res.coverage.get(cm.group(1), 0) + int(cm.group(4))
    shutil.rmtree(meta, ignore_errors=True)
    # machinery failures: parse/semantic errors, exceptions
    if p.returncode != 0 and not res.violated:
        raise TlcFailure(f"TLC failed on {module} (rc={p.returncode}):\n{out[-4000:]}")
    if "Parsing or semantic analysis failed" in out or "*** Errors:" in out:
        raise TlcFailure(f"TLC could not parse {module}:\n{out[-4000:]}")
    return res


def sany(module_path: Path) -> None:
    lib = str(SPEC_DIR)
    p = subprocess.run(
        ["java", f"-DTLA-Library={lib}", "-cp", f"{JAR}:{DEPS}", "tla2sany.SANY", str(module_path)],
        capture_output=True,
        text=True,
        cwd=module_path.parent,
    )
    out = p.stdout + p.stderr
    if p.returncode != 0 or "Semantic errors" in out or "***Parse Error***" in out or "Fatal errors" in out:
        raise TlcFailure(f"SANY rejected {module_path}:\n{out[-3000:]}")
