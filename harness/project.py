"""Projection of a recorded run onto the abstract trace vocabulary of spec/Trace_Run.tla (DESIGN §4.2).

Trusted and deliberately small: interning of paths and contents, application of the reported diffs with
the independent applier, per-site change detection, and the structural predicates TLA+ cannot compute.
"""
from __future__ import annotations

import difflib
import hashlib
import json
import os
from pathlib import Path

from . import manifests, patch
from .common import sha

ABSENT = -2


def snapshot(root: str | Path) -> dict[str, bytes]:
    """Every file under root (symlinks as their link text, not followed)."""
    root = Path(root)
    out: dict[str, bytes] = {}
    for dirpath, dirnames, filenames in os.walk(root, followlinks=False):
        for d in list(dirnames):
            p = Path(dirpath) / d
            if p.is_symlink():
                out[str(p.relative_to(root))] = b"\0symlink-dir:" + os.readlink(p).encode()
        for fn in filenames:
            p = Path(dirpath) / fn
            rel = str(p.relative_to(root))
            if p.is_symlink():
                out[rel] = b"\0symlink:" + os.readlink(p).encode()
            else:
                try:
                    out[rel] = p.read_bytes()
                except OSError:
                    out[rel] = b"\0unreadable"
    return out


def tree_hash(snap: dict[str, bytes]) -> str:
    h = hashlib.sha1()
    for k in sorted(snap):
        h.update(k.encode("utf-8", "surrogateescape") + b"\0" + hashlib.sha1(snap[k]).digest())
    return h.hexdigest()[:16]


def sort_key(rel: str):
    return Path(rel).parts


def decode(data: bytes | None) -> str | None:
    if data is None:
        return None
    try:
        return data.decode("utf-8")
    except UnicodeDecodeError:
        return data.decode("utf-8", "surrogateescape")


def _holds_report(path) -> bool:
    """a file that holds a JSON document; an empty leftover of a failed write is not a written report"""
    try:
        with open(path, "rb") as f:
            data = f.read()
        return bool(data.strip()) and isinstance(json.loads(data), dict)
    except (OSError, ValueError):
        return False


def changed_orig_lines(pre: str, new: str) -> tuple[set[int], dict[int, int]]:
    """1-based line numbers of `pre` that were replaced or deleted, and a map old line -> new line number
    for lines that survive or are replaced one-for-one."""
    a = pre.split("\n")
    b = new.split("\n")
    sm = difflib.SequenceMatcher(a=a, b=b, autojunk=False)
    touched: set[int] = set()
    mapping: dict[int, int] = {}
    for tag, i1, i2, j1, j2 in sm.get_opcodes():
        if tag == "equal":
            for k in range(i2 - i1):
                mapping[i1 + k + 1] = j1 + k + 1
        elif tag in ("replace", "delete"):
            for k in range(i1, i2):
                touched.add(k + 1)
            if tag == "replace":
                for k in range(min(i2 - i1, j2 - j1)):
                    mapping[i1 + k + 1] = j1 + k + 1
    return touched, mapping


def marked_sites(pre: str, new: str, site_lines: list[int]):
    """Sites carrying a unique `# site<k>` comment are located by it: (changed original lines, old -> new line map).
    None when the sites are not marked."""
    a = pre.split("\n")
    b = new.split("\n")
    touched: set[int] = set()
    mapping: dict[int, int] = {}
    for ln in site_lines:
        if ln > len(a) or f"# site{ln}" not in a[ln - 1]:
            return None
        tag = f"# site{ln}"
        hits = [j for j, t in enumerate(b) if t.rstrip().endswith(tag)]
        if len(hits) != 1:
            touched.add(ln)  # the line (or its comment) is gone or duplicated: it was rewritten
            continue
        mapping[ln] = hits[0] + 1
        if b[hits[0]] != a[ln - 1]:
            touched.add(ln)
    return touched, mapping


class Projector:
    """Builds one abstract trace from one recorded run."""

    def __init__(self, run: dict, before: dict[str, bytes], after: dict[str, bytes], *, trace_id: str,
                 expect: dict | None = None, site_lines: dict[str, list[int]] | None = None,
                 outside_unchanged: bool = True, schema_check=None, output_given: bool | None = None,
                 site_findings: dict | None = None, observe: bool = False, bag_check=None, site_spans: dict | None = None):
        self.run = run
        self.before = before
        self.after = after
        self.trace_id = trace_id
        self.expect_in = expect or {}
        self.site_lines = site_lines or {}
        self.site_findings = site_findings or {}
        self.site_spans = site_spans or {}
        self.observe = observe
        self.bag_check = bag_check
        self.outside_unchanged = outside_unchanged
        self.schema_check = schema_check
        self.vers: dict[str, int] = {}
        self.texts: dict[int, str | None] = {}
        self.ftok: dict[str, str] = {}
        self.notes: list[str] = []
        argv = run["events"][0].get("argv", [])
        self.output_given = ("--output" in argv or any(a.startswith("--output=") for a in argv)) if output_given is None else output_given
        self.output_path = None
        for i, a in enumerate(argv):
            if a == "--output" and i + 1 < len(argv):
                self.output_path = argv[i + 1]
            elif a.startswith("--output="):
                self.output_path = a.split("=", 1)[1]

    # ------------------------------------------------------------------ interning
    def ver_of_bytes(self, data: bytes | None) -> int:
        if data is None:
            return ABSENT
        k = sha(data)
        if k not in self.vers:
            self.vers[k] = len(self.vers)
            self.texts[self.vers[k]] = decode(data)
        return self.vers[k]

    def ver_of_text(self, text: str) -> int:
        return self.ver_of_bytes(text.encode("utf-8", "surrogateescape"))

    def ver_of_key(self, key: str) -> int:
        if key == "absent":
            return ABSENT
        return self.ver_of_bytes(self.run["contents"][key])

    def tok(self, rel: str) -> str:
        return self.ftok.get(rel) or self._new_tok(rel)

    def _new_tok(self, rel: str) -> str:
        t = f"x{len(self.ftok)}"
        self.ftok[rel] = t
        return t

    # ------------------------------------------------------------------ main
    def project(self) -> dict:
        evs = self.run["events"]
        mentioned = set(self.before) | set(self.after)
        for e in evs:
            if e["ev"] in ("FileBegin", "FileEnd", "Write"):
                mentioned.add(e["f"])
            if e["ev"] == "Deps":
                mentioned.update(e["stores"])
            if e["ev"] == "Merge":
                # a path the run reports under another spelling (through a symlinked directory, say) is a file of its own
                mentioned.update(e["changesets"])
                mentioned.update(e["failures"])
        ordered = sorted(mentioned, key=sort_key)
        for i, rel in enumerate(ordered):
            self.ftok[rel] = f"f{i}"
        disk0 = {self.ftok[r]: self.ver_of_bytes(self.before.get(r)) for r in ordered}
        disk1 = {self.ftok[r]: self.ver_of_bytes(self.after.get(r)) for r in ordered}

        cfg = {"dryRun": False, "maxWorkers": 1, "output": bool(self.output_given)}
        for e in evs:
            if e["ev"] == "Prefilter":
                cfg["dryRun"] = bool(e["dryRun"])
                cfg["maxWorkers"] = int(e["maxWorkers"])
        exp = {
            "files": False, "mayChange": [], "mustChange": [],
            "sites": False, "siteMay": {}, "siteMust": {}, "exit": -1,
            "sel": False, "queues": [], "faults": False, "mustFail": [],
            "deps": False, "cand": [], "mustOne": False, "frozen": bool(self.expect_in.get("frozen")),
        }
        ein = self.expect_in
        if "mayChange" in ein:
            exp["files"] = True
            exp["mayChange"] = [self.tok(r) for r in ein["mayChange"]]
            exp["mustChange"] = [self.tok(r) for r in ein.get("mustChange", [])]
        if "siteMay" in ein:
            exp["sites"] = True
            exp["siteMay"] = {self.tok(r): list(v) for r, v in ein["siteMay"].items()}
            exp["siteMust"] = {self.tok(r): list(v) for r, v in ein.get("siteMust", {}).items()}
        if "cand" in ein:
            exp["deps"] = True
            exp["cand"] = [self.tok(r) for r in ein["cand"]]
            exp["mustOne"] = bool(ein.get("mustOne"))
        if "mustFail" in ein:
            exp["faults"] = True
            exp["mustFail"] = [{"c": c, "f": self.tok(f)} for c, f in ein["mustFail"]]
        if "queues" in ein:
            exp["sel"] = True
            exp["queues"] = [list(q) for q in ein["queues"]]
        if "exit" in ein:
            exp["exit"] = int(ein["exit"])

        out: list[dict] = [
            {"ev": "RunStart", "cfg": cfg, "files": [self.ftok[r] for r in ordered], "disk": disk0, "expect": exp}
        ]
        for e in evs[1:]:
            k = e["ev"]
            if k == "Selected":
                if e.get("inparse"):
                    continue  # --describe asking the registry while arguments are parsed: not the run's selection
                out.append({"ev": "Selected", "ids": list(e["ids"])})
            elif k == "CodemodStart":
                out.append({"ev": "CodemodStart", "c": e["c"]})
            elif k == "FileBegin":
                out.append({"ev": "FileBegin", "f": self.tok(e["f"]), "pre": self.ver_of_key(e["pre"])})
            elif k == "EnvChange":
                out.append({"ev": "EnvChange", "f": self.tok(e["f"]), "post": self.ver_of_key(e["post"])})
            elif k == "FileEnd":
                out.append(self._file_end(e))
            elif k == "Merge":
                out.append(
                    {"ev": "Merge", "changed": [self.tok(p) for p in e["changesets"]], "failed": [self.tok(p) for p in e["failures"]]}
                )
            elif k == "CodemodEnd":
                out.append({"ev": "CodemodEnd", "c": e["c"], "err": e["err"] or "none"})
            elif k == "Deps":
                out.append(self._deps(e))
            elif k == "ReportBuilt":
                out.append(self._report(e))
            elif k == "ReportWritten":
                out.append({"ev": "ReportWritten", "rc": e["rc"] if isinstance(e["rc"], int) else -1, "exists": bool(e["exists"])})
            elif k == "RunEnd":
                out.append(
                    {
                        "ev": "RunEnd",
                        "exit": e["exit"] if isinstance(e["exit"], int) else -1,
                        "exc": "none" if not e.get("exc") else "raised",
                        "disk": disk1,
                        "outsideUnchanged": bool(self.outside_unchanged),
                        "reportExists": bool(self.output_path and os.path.isfile(self.output_path) and _holds_report(self.output_path)),
                    }
                )
        return {"id": self.trace_id, "events": out}

    # ------------------------------------------------------------------ per-event
    def _apply_diff(self, diff: str, pre_text: str | None) -> int:
        if pre_text is None:
            return -1
        try:
            res = patch.apply_unified(diff, pre_text)
        except patch.PatchError as ex:
            self.notes.append(f"patch: {ex}")
            return -1
        return self.ver_of_text(res)

    def _unify_final_newline(self, new: int, post: int) -> int:
        """C03 allows the diff result and the disk content to differ in the presence of a final newline."""
        if new >= 0 and post >= 0 and new != post:
            a, b = self.texts.get(new), self.texts.get(post)
            if a is not None and b is not None and patch.same_modulo_final_newline(a, b):
                return post
        return new

    def _file_end(self, e: dict) -> dict:
        rel = e["f"]
        pre = self.ver_of_key(e["pre"])
        post = self.ver_of_key(e["post"])
        pre_text = self.texts.get(pre)
        css = e.get("changesets") or []
        failures = e.get("failures") or []
        if e.get("err"):
            outcome = "crashed"
        elif failures:
            outcome = "failed"
        elif css:
            outcome = "changed"
        else:
            outcome = "unchanged"
        findings_ok = unfixed_ok = True
        sf = self.site_findings.get(rel)
        if sf is not None:
            reported = sorted(tuple(x) for v in sf.values() for x in v)
            for u in e.get("unfixed") or []:
                if (u["id"], u["rule"]) not in reported:
                    unfixed_ok = False
                    self.notes.append(f"unfixed finding {u['id']}/{u['rule']} was never reported for {rel}")
        new = post  # no changeset: the version "reported" is whatever is on disk (checked to be the untouched one)
        nchanges = 0
        lines_ok = desc_ok = path_ok = True
        sites: list[int] = []
        clines: list[int] = []
        if css:
            cs = css[0]
            cur = pre
            for c in css:  # normally one; several compose
                cur_text = self.texts.get(cur)
                cur = self._apply_diff(c["diff"], cur_text)
                if cur == -1:
                    break
            new = self._unify_final_newline(cur, post) if cur != -1 else -1
            nchanges = sum(len(c["changes"]) for c in css)
            path_ok = all(c["path"] == rel for c in css)
            desc_ok = all((ch["desc"] or "").strip() != "" for c in css for ch in c["changes"]) and all(c["diff"] != "" for c in css)
            new_text = self.texts.get(new) if new >= 0 else None
            if new_text is not None:
                # line numbers follow Python's notion of a line (universal newlines), not only LF
                nl = max(1, len(patch.split_lf(new_text)), len(new_text.splitlines()))
                npre = max(1, len(patch.split_lf(pre_text or "")), len((pre_text or "").splitlines()))
                # a change entry may use the numbering of either side of the diff
                lines_ok = all(1 <= ch["line"] <= max(nl, npre) for c in css for ch in c["changes"])
            site_lines = self.site_lines.get(rel)
            if site_lines is not None and pre_text is not None and new_text is not None:
                touched, mapping = changed_orig_lines(pre_text, new_text)
                marked = marked_sites(pre_text, new_text, site_lines)
                spans = self.site_spans.get(rel)
                if spans:
                    # sites that span several lines: rewritten iff any line of the span changed
                    touched = {int(s_) for s_, (a_, b_) in spans.items() if set(range(a_, b_ + 1)) & touched}
                elif marked is not None:
                    touched, mapping = marked
                sites = sorted(touched & set(site_lines))
                # a changeset numbers its change entries on one side of the diff: original or rewritten text
                entry_lines = [ch["line"] for c in css for ch in c["changes"]]
                c_orig = sorted({ln for ln in entry_lines if ln in site_lines})
                c_new = sorted({s_ for s_ in site_lines for ln in entry_lines if mapping.get(s_) == ln})
                clines = c_orig if c_orig == sites else (c_new if c_new == sites else (c_orig or c_new))
                if sf is not None:
                    use_new = clines == c_new and clines != c_orig
                    for c in css:
                        for ch in c["changes"]:
                            ln = ch["line"]
                            site = next((s_ for s_ in site_lines if (mapping.get(s_) == ln if use_new else s_ == ln)), None)
                            if site is None:
                                if ch["findings"]:
                                    pass  # entry outside the sites (e.g. an import line): may carry the findings of the edit
                                continue
                            want = sorted(tuple(x) for x in sf.get(str(site), sf.get(site, [])))
                            got = sorted(tuple(x) for x in ch["findings"])
                            if got != want:
                                findings_ok = False
                                self.notes.append(f"change entry for line {ln} of {rel} carries {got}, reported for that site: {want}")
            _ = cs
        obs = {"parsesOk": True, "namesOk": True, "bagOk": True}
        if self.observe and css and rel.endswith(".py") and (new >= 0 or post != pre):
            # what is judged is the content left on disk; under --dry-run (nothing written) the content the diff leads to
            seen = self.texts.get(post) if post != pre and post >= 0 else self.texts.get(new)
            obs = self._observe(rel, pre_text, seen, css)
        return {
            "ev": "FileEnd", "f": self.tok(rel), "o": outcome, "new": new, "post": post,
            "nchanges": nchanges, "nchangesets": len(css), "linesOk": lines_ok, "descOk": desc_ok, "pathOk": path_ok,
            "sites": sites, "clines": clines,
            "unfixedAll": (e.get("nresults") is None) or len(e.get("unfixed") or []) >= (e.get("nresults") or 0),
            "findingsOk": findings_ok, "unfixedOk": unfixed_ok,
            "parsesOk": obs["parsesOk"], "namesOk": obs["namesOk"], "bagOk": obs["bagOk"],
        }

    def _observe(self, rel: str, pre_text, new_text, css) -> dict:
        from . import pyoracle

        out = {"parsesOk": True, "namesOk": True, "bagOk": True}
        if pre_text is None or new_text is None:
            return out
        pre_c, new_c = pyoracle.compiles(pre_text), pyoracle.compiles(new_text)
        pre_p, new_p = pre_c or pyoracle.parses(pre_text), new_c or pyoracle.parses(new_text)
        if (pre_c and not new_c) or (pre_p and not new_p):
            out["parsesOk"] = False
            self.notes.append(f"{rel}: compiled/parsed before the rewrite ({pre_c}/{pre_p}), after ({new_c}/{new_p})")
        if pre_c and new_c:
            a, b = pyoracle.unresolved(pre_text), pyoracle.unresolved(new_text)
            if a is not None and b is not None and (b - a):
                out["namesOk"] = False
                self.notes.append(f"{rel}: names unresolved only after the rewrite: {sorted(b - a)}")
        if self.bag_check is not None and pre_p and new_p:
            err = self.bag_check(rel, pre_text, new_text, css)
            if err:
                out["bagOk"] = False
                self.notes.append(f"{rel}: {err}")
        return out

    def _deps(self, e: dict) -> dict:
        store = e.get("chosen")
        css = e.get("changesets") or []
        before, after = e["before"], e["after"]
        others_untouched = all(before[s] == after[s] for s in e["stores"] if s != store)
        if not css or store is None:
            # nothing reported; any manifest byte change is a silent change
            if store is None and css:
                self.notes.append("deps: changeset without chosen store")
            silent = [s for s in e["stores"] if before[s] != after[s]]
            return {"ev": "Deps", "c": e["c"], "store": "none", "new": 0, "post": 0,
                    "othersUntouched": not silent, "err": e["err"] or "none", "shapeOk": True,
                    "wanted": bool(e.get("wanted")), "parsesOk": True, "keptOk": True, "addedOk": True}
        cs = css[0]
        store_rel = cs["path"]
        pre = self.ver_of_key(before.get(store_rel, "absent")) if store_rel in before else ABSENT
        post = self.ver_of_key(after.get(store_rel, "absent")) if store_rel in after else ABSENT
        new = self._apply_diff(cs["diff"], self.texts.get(pre))
        new = self._unify_final_newline(new, post) if new != -1 else -1
        new_text = self.texts.get(new) if new >= 0 else None
        nl = max(1, len(patch.split_lf(new_text))) if new_text is not None else 10 ** 6
        shape_ok = bool(cs["changes"]) and all(1 <= ch["line"] <= nl and (ch["desc"] or "").strip() for ch in cs["changes"]) and bool(cs["diff"])
        if not shape_ok:
            self.notes.append(f"deps changeset malformed: lines {[ch['line'] for ch in cs['changes']]} of {nl}")
        parses_ok = kept_ok = added_ok = True
        pre_text = self.texts.get(pre)
        if new_text is not None and pre_text is not None and store_rel.split("/")[-1] in manifests.PARSERS:
            try:
                before_reqs = manifests.parse(store_rel, pre_text)
            except manifests.Unparseable:
                before_reqs = None
            try:
                after_reqs = manifests.parse(store_rel, new_text)
            except manifests.Unparseable as ex:
                after_reqs = None
                parses_ok = False
                self.notes.append(f"deps: {store_rel} after the change: {ex}")
            if before_reqs is not None and after_reqs is not None:
                from collections import Counter

                lost = Counter(before_reqs) - Counter(after_reqs)
                lost_comments = Counter(manifests.comments(store_rel, pre_text)) - Counter(manifests.comments(store_rel, new_text))
                if lost or lost_comments:
                    kept_ok = False
                    self.notes.append(f"deps: lost from {store_rel}: {list(lost)[:3]} {list(lost_comments)[:3]}")
                # unrelated content includes the line endings of the lines that were not edited
                crlf_before, crlf_after = pre_text.count("\r\n"), new_text.count("\r\n")
                if crlf_before >= 2 and crlf_after < crlf_before - 1:
                    kept_ok = False
                    self.notes.append(f"deps: {store_rel} had {crlf_before} CRLF line endings, {crlf_after} are left")
                for w in e.get("wanted") or []:
                    name = manifests.norm(manifests.Requirement(w).name)
                    nb = sum(1 for r in before_reqs if r[0] == name)
                    na = sum(1 for r in after_reqs if r[0] == name)
                    if not (nb == 0 and na == 1):
                        added_ok = False
                        self.notes.append(f"deps: {name} declared {nb} time(s) before and {na} after in {store_rel}")
        return {"ev": "Deps", "c": e["c"], "store": self.tok(store_rel), "new": new, "post": post,
                "othersUntouched": others_untouched and store_rel == store, "err": e["err"] or "none", "shapeOk": shape_ok,
                "wanted": bool(e.get("wanted")), "parsesOk": parses_ok, "keptOk": kept_ok, "addedOk": added_ok}

    def _report(self, e: dict) -> dict:
        rep = e["report"]
        results = []
        shape_ok = True
        why = []
        root = None
        for r in rep.get("results", []):
            changed = [self.tok(cs["path"]) for cs in r.get("changeset", [])]
            failed = []
            for p in r.get("failedFiles", []) or []:
                failed.append(self.tok(self._rel_of_abs(p, rep)))
            results.append({"c": r["codemod"], "changed": changed, "failed": failed})
            if not r.get("codemod") or not r.get("summary") or r.get("description") is None or r.get("references") is None:
                shape_ok = False
                why.append(f"{r['codemod']}: missing summary/description/references")
            for cs in r.get("changeset", []):
                if os.path.isabs(cs["path"]) or cs["path"] not in self.before and cs["path"] not in self.after:
                    shape_ok = False
                    why.append(f"{r['codemod']}: changeset path {cs['path']!r} is not a project-relative file")
                if not cs.get("diff"):
                    shape_ok = False
                    why.append("empty diff")
                if not cs.get("changes"):
                    shape_ok = False
                    why.append(f"{r['codemod']}: changeset without change entries for {cs['path']}")
                for ch in cs.get("changes", []):
                    if not (ch.get("description") or "").strip() or ch.get("lineNumber", 0) < 1:
                        shape_ok = False
                        why.append("change without description / line")
            if r["codemod"].split(":")[0] != "pixee":
                if not (r.get("detectionTool") or {}).get("name"):
                    shape_ok = False
                    why.append(f"{r['codemod']}: SAST result without detection tool")
                for cs in r.get("changeset", []):
                    # which change entry carries which finding is C06's matter; here: the changes a tool's findings
                    # caused in a source file name at least one of them
                    if cs["path"] in self.before and cs["path"].endswith(".py") and cs.get("changes") and not any(ch.get("findings") for ch in cs["changes"]):
                        shape_ok = False
                        why.append(f"{r['codemod']}: no change of {cs['path']} in a SAST result names a finding")
                    for ch in cs.get("changes", []):
                        for f in ch.get("findings") or []:
                            if not f.get("id") or not (f.get("rule") or {}).get("id"):
                                shape_ok = False
                                why.append("finding without ids")
        _ = root
        schema_ok = True
        if self.schema_check is not None:
            err = self.schema_check(rep)
            if err:
                schema_ok = False
                why.append(f"schema: {err}")
        meta_ok = True
        argv = next((x["argv"] for x in self.run["events"] if x["ev"] == "RunStart"), None)
        run = rep.get("run") or {}
        if argv is not None:
            want_cmd = " ".join(argv)
            cmd = run.get("commandLine") or ""
            if not (cmd.endswith(" " + want_cmd) and cmd[: -len(want_cmd) - 1].strip() and " " not in cmd[: -len(want_cmd) - 1].strip()):
                meta_ok = False
                why.append(f"run.commandLine {cmd[:120]!r} is not `<command> {want_cmd[:80]}`")
            want_dir = os.path.abspath(self.run["directory"]) if self.run.get("directory") else None
            if want_dir is not None and os.path.realpath(run.get("directory") or "") != os.path.realpath(want_dir):
                meta_ok = False
                why.append(f"run.directory {run.get('directory')!r} is not the scanned directory {want_dir!r}")
        if run.get("vendor") != "pixee" or run.get("tool") != "codemodder-python" or not run.get("version"):
            meta_ok = False
            why.append("run.vendor / tool / version")
        if not isinstance(run.get("elapsed"), int) or isinstance(run.get("elapsed"), bool) or run.get("elapsed") < 0:
            meta_ok = False
            why.append(f"run.elapsed {run.get('elapsed')!r} is not a non-negative number of milliseconds")
        if why:
            self.notes.extend(why[:5])
        return {"ev": "ReportBuilt", "results": results, "schemaOk": schema_ok, "shapeOk": shape_ok, "metaOk": meta_ok}

    def _rel_of_abs(self, p: str, rep: dict) -> str:
        d = rep.get("run", {}).get("directory", "")
        for base in (d, os.path.realpath(d) if d else d):
            if base and p.startswith(base.rstrip("/") + "/"):
                return p[len(base.rstrip("/")) + 1 :]
        # the context directory may be relative
        for rel in list(self.before) + list(self.after):
            if p.endswith("/" + rel) or p == rel:
                return rel
        return p
