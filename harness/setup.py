"""./check --setup : build/verify the framework from files on disk only.

* SANY-parses every specification module;
* runs the design model (MC_Run) exhaustively and, for non-vacuity, once per weakened guard (`Bug`): every
  weakening must be caught by the invariant named after the property it breaks.
"""
from __future__ import annotations

import re
import shutil
import sys
import time
from pathlib import Path

from . import tlc
from .common import scratch

# weakened guard -> invariant(s) one of which must fail
BUGS = {
    "poolUnbounded": {"C11_WorkerBound"},
    "dryRunWrites": {"C04_DryRunFrozen"},
    "failedFileWritten": {"C10_FailedUntouched", "C03_Composes"},
    "silentWrite": {"C03_Composes", "C04_DryRunFrozen"},
    "emptyChangeset": {"C03_RealChanges"},
    "mergeDropsFailures": {"C11_MergeDeterministic"},
    "mergeReversed": {"C11_MergeDeterministic"},
    "skipsCodemod": {"C17_RunsOnceInOrder"},
    "reportDropsResult": {"C15_ReportShape", "C15_ReportComplete"},
    "exitIgnoresWriteFailure": {"C20_ExitStatus"},
}



def main() -> int:
    t0 = time.time()
    spec = tlc.SPEC_DIR
    ok = True
    mods = sorted(p for p in spec.glob("*.tla"))
    stubs = {p.stem for p in (spec / "stubs").glob("*.tla")}
    for p in mods:
        text = p.read_text()
        needs = [n for n in stubs if re.search(rf"\b{n}\b", text)]
        try:
            if needs:
                # generator specs EXTEND a data module written at run time: parse (and run) them on the committed stub data
                d = scratch("stub")
                shutil.copy(p, d / p.name)
                for n in needs:
                    shutil.copy(spec / "stubs" / f"{n}.tla", d / f"{n}.tla")
                cfg = spec / f"{p.stem}.cfg"
                if cfg.exists():
                    shutil.copy(cfg, d / cfg.name)
                    r = tlc.run_tlc(d, p.stem, cfg.name, timeout=300)
                    print(f"tlc  ok   {p.name} on stub data: {r.distinct} states, violations={[v[1] for v in r.violated]}")
                    if r.violated:
                        ok = False
                else:
                    tlc.sany(d / p.name)
                    print(f"sany ok   {p.name}")
                shutil.rmtree(d, ignore_errors=True)
            else:
                tlc.sany(p)
                print(f"sany ok   {p.name}")
        except tlc.TlcFailure as ex:
            ok = False
            print(f"FAIL {p.name}: {str(ex)[-800:]}")
    res = tlc.run_tlc(spec, "MC_Run", "MC_Run.cfg", timeout=900)
    print(f"MC_Run design: {res.distinct} distinct states, depth {res.depth}, {res.wall_s:.1f}s, violations={[v[1] for v in res.violated]}")
    if res.violated:
        ok = False
    cfg_text = (spec / "MC_Run.cfg").read_text()
    for bug, expected in BUGS.items():
        d = scratch("bug")
        shutil.copy(spec / "MC_Run.tla", d / "MC_Run.tla")
        small = cfg_text.replace('Bug = "none"', f'Bug = "{bug}"').replace("PROPERTY Terminates\n", "")
        (d / "MC_Run.cfg").write_text(small)
        r = tlc.run_tlc(d, "MC_Run", "MC_Run.cfg", timeout=600)
        names = {v[1] for v in r.violated}
        hit = bool(names & expected)
        print(f"  weakened guard {bug:26s} -> {sorted(names)} {'caught' if hit else 'NOT CAUGHT'}")
        ok = ok and hit
        shutil.rmtree(d, ignore_errors=True)
    # ---- the other self-contained models: must hold as configured
    for mod in ("MC_Pool", "Deps", "Faults", "Variants", "Gen_Sites", "LinePipe", "XmlDocs", "MC_ExprRewrite", "WithScope", "WalrusIf", "Prefilter", "ImportUse"):   # SqlParam: run above, on its stub data
        r = tlc.run_tlc(spec, mod, f"{mod}.cfg", timeout=900)
        print(f"tlc  {'ok  ' if not r.violated else 'FAIL'} {mod}: {r.distinct} states, {r.wall_s:.1f}s {[v[1] for v in r.violated][:2]}")
        ok = ok and not r.violated
    # ---- non-vacuity of the rule transcription: the rules of the pinned commit must be refuted by the evaluator
    base = (spec / "MC_ExprRewrite.cfg").read_text()
    for vc, vi, depth in (("repaired", "pinned", 1), ("pinned", "repaired", 2), ("repaired", "tree", 1)):
        d = scratch("exprbug")
        shutil.copy(spec / "MC_ExprRewrite.tla", d / "MC_ExprRewrite.tla")
        (d / "MC_ExprRewrite.cfg").write_text(base.replace('VariantCombine = "repaired"', f'VariantCombine = "{vc}"').replace('VariantInvert = "repaired"', f'VariantInvert = "{vi}"').replace("Depth = 2", f"Depth = {depth}"))
        r = tlc.run_tlc(d, "MC_ExprRewrite", "MC_ExprRewrite.cfg", timeout=900)
        hit = any(v[1] == "C08_RewritePreservesBehaviour" for v in r.violated)
        print(f"  pinned rules combine={vc} invert={vi}: {'refuted' if hit else 'NOT REFUTED'}")
        ok = ok and hit
        shutil.rmtree(d, ignore_errors=True)
    # ---- non-vacuity of SqlParam.tla: weakened piece-level rules must be refuted
    base = (spec / "SqlParam.cfg").read_text()
    base = base.replace("MaxConds = 2", "MaxConds = 3").replace("MaxItems = 3", "MaxItems = 2")  # three conditions, shorter values
    for variant, inv in (("tree", None), ("no-parity", "C08_PatternsAreCompleteQuotedValues"), ("no-pushback", "LemmaComplete"), ("no-reset", "LemmaComplete")):
        d = scratch("sqlbug")
        shutil.copy(spec / "SqlParam.tla", d / "SqlParam.tla")
        shutil.copy(spec / "stubs" / "SqlData.tla", d / "SqlData.tla")
        (d / "SqlParam.cfg").write_text(base.replace('RuleVariant = "tree"', f'RuleVariant = "{variant}"'))
        r = tlc.run_tlc(d, "SqlParam", "SqlParam.cfg", timeout=900, cont=True)
        if inv is None:
            print(f"tlc  {'ok  ' if not r.violated else 'FAIL'} SqlParam with 3 conditions: {r.distinct} states, {r.wall_s:.1f}s")
            ok = ok and not r.violated
        else:
            hit = any(v[1] == inv for v in r.violated)
            print(f"  SqlParam rule variant {variant}: {inv} {'refuted' if hit else 'NOT REFUTED'}")
            ok = ok and hit
        shutil.rmtree(d, ignore_errors=True)
    # ---- Apalache: the inductive invariant of PoolAbs.tla holds, and is not inductive once the worker guard is removed
    from . import apalache

    if apalache.available():
        obs = apalache.inductive("PoolAbs", cinit="ConstInit", init="Init", ind_init="IndInit", ind_inv="IndInv", goal="WorkerBound")
        print(f"apalache {'ok  ' if all(o['ok'] for o in obs) else 'FAIL'} PoolAbs: " + ", ".join(f"{o['obligation']} {o['wall_s']}s" for o in obs))
        ok = ok and all(o["ok"] for o in obs)
        bug = apalache.inductive("PoolAbs", cinit="ConstInit", init="Init", ind_init="IndInit", ind_inv="IndInv", goal="WorkerBound",
                                 mutate=lambda t: t.replace("/\\ next < N /\\ Cardinality(running) < W", "/\\ next < N"))
        hit = bug[1]["error"]
        print(f"  PoolAbs without the worker guard: {'not inductive (counterexample)' if hit else 'NOT REFUTED'}")
        ok = ok and hit
    else:
        print("apalache-mc not available: PoolAbs.tla skipped")
    # ---- Prefilter.tla without its proviso: the one-scan design must be refuted (a fix that creates a later codemod's trigger)
    d = scratch("prebug")
    shutil.copy(spec / "Prefilter.tla", d / "Prefilter.tla")
    (d / "Prefilter.cfg").write_text((spec / "Prefilter.cfg").read_text().replace("Assume = TRUE", "Assume = FALSE"))
    r = tlc.run_tlc(d, "Prefilter", "Prefilter.cfg", timeout=300, cont=True)
    hit = any(v[1] == "C09_BatchEqualsChain" for v in r.violated)
    print(f"  Prefilter without NoEnabling: {'refuted' if hit else 'NOT REFUTED'}")
    ok = ok and hit
    shutil.rmtree(d, ignore_errors=True)
    # ---- non-vacuity of WalrusIf.tla: the rules of the pinned commit and of the first repair must be refuted
    for variant in ("pinned", "private", "noaug"):
        d = scratch("walrusbug")
        shutil.copy(spec / "WalrusIf.tla", d / "WalrusIf.tla")
        (d / "WalrusIf.cfg").write_text((spec / "WalrusIf.cfg").read_text().replace('RuleVariant = "tree"', f'RuleVariant = "{variant}"'))
        r = tlc.run_tlc(d, "WalrusIf", "WalrusIf.cfg", timeout=300, cont=True)
        hit = any(v[1] == "C08_DropsOnlyUnreadBindings" for v in r.violated)
        print(f"  WalrusIf rule variant {variant}: {'refuted' if hit else 'NOT REFUTED'}")
        ok = ok and hit
        shutil.rmtree(d, ignore_errors=True)
    # ---- non-vacuity of ImportUse.tla: the export recognition of the pinned commit must be refuted
    d = scratch("importbug")
    shutil.copy(spec / "ImportUse.tla", d / "ImportUse.tla")
    (d / "ImportUse.cfg").write_text((spec / "ImportUse.cfg").read_text().replace('RuleVariant = "tree"', 'RuleVariant = "pinned"'))
    r = tlc.run_tlc(d, "ImportUse", "ImportUse.cfg", timeout=300, cont=True)
    hit = any(v[1] == "C02_RemovesOnlyUnusedImports" for v in r.violated)
    print(f"  ImportUse rule variant pinned: {'refuted' if hit else 'NOT REFUTED'}")
    ok = ok and hit
    shutil.rmtree(d, ignore_errors=True)
    # ---- the trace specification rejects a corrupted trace (binding bites)
    from . import tracecheck

    good = {"id": "selftest-good", "events": [
        {"ev": "RunStart", "cfg": {"dryRun": False, "maxWorkers": 1, "output": True}, "files": ["f0"], "disk": {"f0": 0},
         "expect": {"files": False, "mayChange": [], "mustChange": [], "sites": False, "siteMay": {}, "siteMust": {}, "exit": -1, "sel": False, "queues": [],
                    "faults": False, "mustFail": [], "deps": False, "cand": [], "mustOne": False, "frozen": False}},
        {"ev": "Selected", "ids": ["k"]}, {"ev": "CodemodStart", "c": "k"}, {"ev": "FileBegin", "f": "f0", "pre": 0},
        {"ev": "FileEnd", "f": "f0", "o": "changed", "new": 1, "post": 1, "nchanges": 1, "nchangesets": 1, "linesOk": True, "descOk": True, "pathOk": True,
         "sites": [], "clines": [], "unfixedAll": True, "findingsOk": True, "unfixedOk": True, "parsesOk": True, "namesOk": True, "bagOk": True},
        {"ev": "Merge", "changed": ["f0"], "failed": []}, {"ev": "CodemodEnd", "c": "k", "err": "none"},
        {"ev": "Deps", "c": "k", "store": "none", "new": 0, "post": 0, "othersUntouched": True, "err": "none", "shapeOk": True, "wanted": False, "parsesOk": True, "keptOk": True, "addedOk": True},
        {"ev": "ReportBuilt", "results": [{"c": "k", "changed": ["f0"], "failed": []}], "schemaOk": True, "shapeOk": True, "metaOk": True},
        {"ev": "ReportWritten", "rc": 0, "exists": True},
        {"ev": "RunEnd", "exit": 0, "exc": "none", "disk": {"f0": 1}, "outsideUnchanged": True, "reportExists": True}]}
    import copy

    bad1 = copy.deepcopy(good); bad1["id"] = "selftest-disk"; bad1["events"][4]["post"] = 0          # diff reported, disk not changed
    bad2 = copy.deepcopy(good); bad2["id"] = "selftest-dropped"; del bad2["events"][5]               # Merge event removed
    bad3 = copy.deepcopy(good); bad3["id"] = "selftest-exit"; bad3["events"][-1]["exit"] = 1           # wrong exit status
    bad4 = copy.deepcopy(good); bad4["id"] = "selftest-meta"; bad4["events"][8]["metaOk"] = False      # report describes another invocation
    verdicts, _ = tracecheck.validate([good, bad1, bad2, bad3, bad4])
    want = {"selftest-good": False, "selftest-disk": True, "selftest-dropped": True, "selftest-exit": True, "selftest-meta": True}
    for k, rejected in want.items():
        got = bool(verdicts[k])
        print(f"  trace {k}: {'rejected ' + str(sorted(verdicts[k])[:2]) if got else 'accepted'}")
        ok = ok and got == rejected
    print(f"setup {'ok' if ok else 'FAILED'} in {time.time() - t0:.0f}s")
    return 0 if ok else 1


if __name__ == "__main__":
    sys.exit(main())
