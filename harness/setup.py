"""./check --setup : build/verify the framework from files on disk only.

* SANY-parses every specification module;
* runs the design model (MC_Run) exhaustively and, for non-vacuity, once per weakened guard (`Bug`): every
  weakening must be caught by the invariant named after the property it breaks.
"""
from __future__ import annotations

import re
import shutil
import sys
import time
from pathlib import Path

from . import tlc
from .common import scratch

# weakened guard -> invariant(s) one of which must fail
BUGS = {
    "poolUnbounded": {"C11_WorkerBound"},
    "dryRunWrites": {"C04_DryRunFrozen"},
    "failedFileWritten": {"C10_FailedUntouched", "C03_Composes"},
    "silentWrite": {"C03_Composes", "C04_DryRunFrozen"},
    "emptyChangeset": {"C03_RealChanges"},
    "mergeDropsFailures": {"C11_MergeDeterministic"},
    "mergeReversed": {"C11_MergeDeterministic"},
    "skipsCodemod": {"C17_RunsOnceInOrder"},
    "reportDropsResult": {"C15_ReportShape", "C15_ReportComplete"},
    "exitIgnoresWriteFailure": {"C20_ExitStatus"},
}



def main() -> int:
    t0 = time.time()
    spec = tlc.SPEC_DIR
    ok = True
    mods = sorted(p for p in spec.glob("*.tla"))
    stubs = {p.stem for p in (spec / "stubs").glob("*.tla")}
    for p in mods:
        text = p.read_text()
        needs = [n for n in stubs if re.search(rf"\b{n}\b", text)]
        try:
            if needs:
                # generator specs EXTEND a data module written at run time: parse (and run) them on the committed stub data
                d = scratch("stub")
                shutil.copy(p, d / p.name)
                for n in needs:
                    shutil.copy(spec / "stubs" / f"{n}.tla", d / f"{n}.tla")
                cfg = spec / f"{p.stem}.cfg"
                if cfg.exists():
                    shutil.copy(cfg, d / cfg.name)
                    r = tlc.run_tlc(d, p.stem, cfg.name, timeout=300)
                    print(f"tlc  ok   {p.name} on stub data: {r.distinct} states, violations={[v[1] for v in r.violated]}")
                    if r.violated:
                        ok = False
                else:
                    tlc.sany(d / p.name)
                    print(f"sany ok   {p.name}")
                shutil.rmtree(d, ignore_errors=True)
            else:
                tlc.sany(p)
                print(f"sany ok   {p.name}")
        except tlc.TlcFailure as ex:
            ok = False
            print(f"FAIL {p.name}: {str(ex)[-800:]}")
    res = tlc.run_tlc(spec, "MC_Run", "MC_Run.cfg", timeout=900)
    print(f"MC_Run design: {res.distinct} distinct states, depth {res.depth}, {res.wall_s:.1f}s, violations={[v[1] for v in res.violated]}")
    if res.violated:
        ok = False
    cfg_text = (spec / "MC_Run.cfg").read_text()
    for bug, expected in BUGS.items():
        d = scratch("bug")
        shutil.copy(spec / "MC_Run.tla", d / "MC_Run.tla")
        small = cfg_text.replace('Bug = "none"', f'Bug = "{bug}"').replace("PROPERTY Terminates\n", "")
        (d / "MC_Run.cfg").write_text(small)
        r = tlc.run_tlc(d, "MC_Run", "MC_Run.cfg", timeout=600)
        names = {v[1] for v in r.violated}
        hit = bool(names & expected)
        print(f"  weakened guard {bug:26s} -> {sorted(names)} {'caught' if hit else 'NOT CAUGHT'}")
        ok = ok and hit
        shutil.rmtree(d, ignore_errors=True)
    print(f"setup {'ok' if ok else 'FAILED'} in {time.time() - t0:.0f}s")
    return 0 if ok else 1


if __name__ == "__main__":
    sys.exit(main())
