"""Driver for the properties about rewritten program text (C01, C02, C07, C16, C18): seeds x variations -> batch runs."""
from __future__ import annotations

import json

from . import pyoracle, runner, seeds, tlc, tracecheck, variations
from .common import Check


BASE = {"wrap": "none", "layout": "lf", "mult": 1, "imp": "asis", "args": "asis"}


def enumerate_vectors(chk: Check, with_args: bool = False) -> list[dict]:
    res = tlc.run_tlc(tlc.SPEC_DIR, "Variants", "Variants.cfg", dump=True)
    chk.add_tlc(res)
    vs = [st["v"] for st in res.dump if st["st"] == "init" and (with_args or st["v"]["args"] == "asis")]
    vs.sort(key=lambda v: json.dumps(v, sort_keys=True))
    return vs


def covering(chk: Check, vectors: list[dict], n: int) -> list[dict]:
    pool = list(vectors)
    chk.rng.shuffle(pool)
    covered, out, rest = set(), [], []
    base = dict(BASE)
    out.append(base)
    for v in pool:
        if v == base:
            continue
        vals = sorted(v.items())
        pairs = {(a, b) for i, a in enumerate(vals) for b in vals[i + 1:]}
        if pairs - covered:
            covered |= pairs
            out.append(v)
        else:
            rest.append(v)
        if len(out) >= n:
            break
    return (out + rest)[:n]


def vec_key(v: dict) -> str:
    return (f"{v['wrap']}/{v['layout']}/x{v['mult']}/{v['imp']}" + (f"/{v['args']}" if v.get("args", "asis") != "asis" else "")
            + (f"/{v['filter']}" if v.get("filter") else ""))


def build_batches(chk: Check, *, codemods=None, seeds_per_codemod: int = 2, vectors_per_seed: int = 8, vectors=None,
                  step_extra: dict | None = None, second_run: bool = False, origin: str = "pixee", with_extra: bool = False,
                  extra_vectors: int = 3, rare_seeds: int = 4) -> list[dict]:
    """One scenario per find-and-fix codemod: a project with one file per (seed, variation)."""
    vectors = vectors or enumerate_vectors(chk)
    by = seeds.by_codemod(with_extra=with_extra)
    scenarios = []
    discarded = 0
    for cid in sorted(by):
        if not cid.startswith(origin + ":") or (codemods is not None and cid not in codemods):
            continue
        cands = sorted((s for s in by[cid] if not s.test.startswith("extra::")), key=lambda s: (len(s.input), s.key))
        chosen = cands[:seeds_per_codemod]
        probes = [s for s in by[cid] if s.test.startswith("extra::")]
        chosen += probes
        # a rare argument-list variation (dict-spread) gets the seeds it applies to, beyond the shortest ones
        rare: dict = {}
        if any(v.get("args") == "dict-spread" for v in vectors):
            for s in cands[seeds_per_codemod:]:
                if len(rare) >= rare_seeds:
                    break
                if variations.extend_args(s.input, "dict-spread", variations.changed_lines(s.input, s.expected)) is not None:
                    rare[s.key] = s
        files, metas = {}, {}
        n = 0
        for s in chosen + list(rare.values()):
            base_ok = pyoracle.compiles(s.input)
            if s.key in rare:
                vs = [v for v in vectors if v.get("args") == "dict-spread"]
                chk.rng.shuffle(vs)
                vs = sorted(vs[:2], key=vec_key)
            else:
                vs = covering(chk, vectors, extra_vectors if s.test.startswith("extra::") else vectors_per_seed)
                if s.test.startswith("extra::"):
                    # a hand-written probe also gets every argument-list / layout-of-the-statement variation that applies to it
                    kinds = sorted({v.get("args") for v in vectors} - {"asis", None})
                    vs = vs + [dict(BASE, args=k) for k in kinds if dict(BASE, args=k) not in vs]
            for v in vs:
                added = [ln for ln in s.expected.split("\n") if seeds.is_import_line(ln) and ln.strip() and ln not in s.input.split("\n")]
                text = variations.apply(s.input, v, added, s.expected)
                if text is None:
                    discarded += 1
                    continue
                if base_ok and not pyoracle.compiles(text):
                    discarded += 1
                    continue
                if not base_ok and not pyoracle.parses(text):
                    discarded += 1
                    continue
                rel = f"v{n:03d}.py"
                n += 1
                files[rel] = text
                metas[rel] = {"seed": s.key, "vector": v, "seed_input": s.input, "seed_expected": s.expected}
        if not files:
            continue
        argv = ["{dir}", "--output", "{out}", "--codemod-include", cid]
        step = {"argv": argv, "observe": True}
        step.update(step_extra or {})
        steps = [step]
        if second_run:
            steps.append({"argv": argv, "expect": {"frozen": True}})
        scenarios.append({"id": f"P-{cid}", "files": files, "steps": steps, "_codemod": cid, "_metas": metas})
    chk.coverage["variants_discarded_not_compiling"] = chk.coverage.get("variants_discarded_not_compiling", 0) + discarded
    return scenarios


def build_line_filter_batches(chk: Check, *, multi_statement_only: bool = True, max_lines: int = 26) -> list[dict]:
    """Per find-and-fix codemod two runs over copies of one two-site program, file number L carrying the line filter
    `fL.py:L` (one run with the lines as excludes, one as includes): an edit that spans several statements must stay
    consistent whichever of its lines the filter names."""
    by = seeds.by_codemod()
    out = []
    for cid in sorted(by):
        if not cid.startswith("pixee:"):
            continue
        cands = sorted((s for s in by[cid] if pyoracle.compiles(s.input) and s.expected != s.input), key=lambda s: (len(s.input), s.key))
        if multi_statement_only:
            cands = [s for s in cands if len(variations.changed_lines(s.input, s.expected)) >= 2 or s.input.count("\n") != s.expected.count("\n")]
        if not cands:
            continue
        s = cands[0]
        # two sites, each in a function of its own (its names are local to it)
        head, body = variations._split(s.input)
        ib = variations._indent(body)
        text = "\n".join(head + ["", "", "def site_a(arg=None):"] + ib + ["", "", "def site_b(arg=None):"] + ib) + "\n"
        if not body or not pyoracle.compiles(text):
            text = variations.multiply(s.input, 2)
        if not pyoracle.compiles(text):
            text = s.input
        n = min(len(text.split("\n")), max_lines)
        for mode in ("exclude", "include"):
            files, metas, pats = {}, {}, []
            for ln in range(1, n + 1):
                rel = f"f{ln:02d}.py"
                files[rel] = text
                metas[rel] = {"seed": s.key, "vector": dict(BASE, filter=f"{mode}:{ln}"), "seed_input": s.input, "seed_expected": s.expected}
                pats.append(f"{rel}:{ln}")
            argv = ["{dir}", "--output", "{out}", "--codemod-include", cid, f"--path-{mode}", ",".join(pats)]
            out.append({"id": f"LF-{mode}-{cid}", "files": files, "steps": [{"argv": argv, "observe": True}], "_codemod": cid, "_metas": metas})
    return out


def build_sast(chk: Check, *, second_run: bool = False, step_extra: dict | None = None, max_per_codemod: int = 2) -> list[dict]:
    """SAST seeds keep their own result file, so the program is not varied in ways that move lines or columns."""
    out = []
    count: dict = {}
    for s in seeds.load():
        if not (s.sast and s.changes and s.results and s.ext == "py" and not s.files):
            continue
        if count.get(s.codemod, 0) >= max_per_codemod:
            continue
        count[s.codemod] = count.get(s.codemod, 0) + 1
        opt = {"sonar": "--sonar-issues-json", "semgrep": "--sarif", "defectdojo": "--defectdojo-findings-json"}[s.tool]
        if s.tool == "sonar":
            try:
                d = json.loads(s.results)
                if "hotspots" in d and "issues" not in d:
                    opt = "--sonar-hotspots-json"
            except ValueError:
                continue
        argv = ["{dir}", "--output", "{out}", "--codemod-include", s.codemod, opt, "{res}/results.json"]
        step = {"argv": argv, "observe": True}
        step.update(step_extra or {})
        steps = [step]
        if second_run:
            steps.append({"argv": argv, "expect": {"frozen": True}})
        out.append({"id": f"S-{s.codemod}-{count[s.codemod]}", "files": {"code.py": s.input}, "resfiles": {"results.json": seeds.results_for_cli(s.tool, s.results)},
                    "steps": steps, "_codemod": s.codemod, "_metas": {"code.py": {"seed": s.key, "vector": dict(BASE)}}})
    return out


def run_batches(chk: Check, scenarios: list[dict]):
    results = runner.run_many(scenarios)
    traces = [st["trace"] for r in results for st in r["steps"]]
    verdicts, stats = tracecheck.validate(traces)
    for s in stats:
        chk.add_tlc(s)
    chk.coverage["traces_validated_against_impl"] += len(traces)
    return results, verdicts


def per_file_events(step: dict) -> dict:
    rev = {v: k for k, v in step["ftok"].items()}
    out = {}
    for e in step["trace"]["events"]:
        if e["ev"] == "FileEnd":
            out.setdefault(rev[e["f"]], []).append(e)
    return out
