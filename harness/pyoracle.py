"""Trusted observations of Python source text that TLA+ cannot compute (DESIGN §4.2 / §6): parses, unresolved names,
token bags."""
from __future__ import annotations

import ast
import builtins
import symtable
import warnings
from collections import Counter

_BUILTINS = set(dir(builtins)) | {"__file__", "__name__", "__doc__", "__builtins__", "__spec__", "__loader__", "__package__",
                                  "__path__", "__debug__", "__annotations__", "__class__", "__dict__", "__module__", "__qualname__"}


def _src(text: str) -> bytes:
    """source as the interpreter reads it from a file: bytes (a UTF-8 byte order mark is legal at the very start only)"""
    return text.encode("utf-8", "surrogateescape")


def parses(text: str) -> bool:
    with warnings.catch_warnings():
        warnings.simplefilter("ignore")
        try:
            ast.parse(_src(text))
            return True
        except (SyntaxError, ValueError):
            return False


def compiles(text: str) -> bool:
    with warnings.catch_warnings():
        warnings.simplefilter("ignore")
        try:
            compile(_src(text), "<program>", "exec", dont_inherit=True)
            return True
        except (SyntaxError, ValueError):
            return False


def unresolved(text: str) -> set[str] | None:
    """Names that are read somewhere but bound neither in an enclosing scope, nor at module level, nor as builtins.
    None when the analysis is not possible (does not compile, star import)."""
    with warnings.catch_warnings():
        warnings.simplefilter("ignore")
        try:
            top = symtable.symtable(text.lstrip("\ufeff") if text.count("\ufeff") == 1 and text.startswith("\ufeff") else text, "<program>", "exec")
        except (SyntaxError, ValueError):
            return None
    try:
        tree = ast.parse(_src(text))
    except (SyntaxError, ValueError):
        return None
    for node in ast.walk(tree):
        if isinstance(node, ast.ImportFrom) and any(a.name == "*" for a in node.names):
            return None
    module_bound = set()
    for s in top.get_symbols():
        if s.is_assigned() or s.is_imported() or s.is_namespace() or s.is_parameter():
            module_bound.add(s.get_name())
    # names assigned through `global x` inside functions are module-level bindings too
    out: set[str] = set()

    def collect_global_assign(tab):
        for s in tab.get_symbols():
            if s.is_global() and s.is_assigned():
                module_bound.add(s.get_name())
        for ch in tab.get_children():
            collect_global_assign(ch)

    collect_global_assign(top)

    def walk(tab):
        for s in tab.get_symbols():
            if not s.is_referenced():
                continue
            name = s.get_name()
            if tab.get_type() == "module":
                is_free_global = not (s.is_assigned() or s.is_imported() or s.is_namespace() or s.is_parameter())
            else:
                is_free_global = s.is_global()  # implicit or declared: resolved at module level or in builtins
            if is_free_global and name not in module_bound and name not in _BUILTINS:
                out.add(name)
        for ch in tab.get_children():
            walk(ch)

    walk(top)
    return out


def token_bag(text: str) -> Counter | None:
    """Multiset of identifiers, attribute names, keyword-argument names, imported names and constants."""
    try:
        tree = ast.parse(text)
    except (SyntaxError, ValueError):
        return None
    bag: Counter = Counter()
    for node in ast.walk(tree):
        if isinstance(node, ast.Name):
            bag[("name", node.id)] += 1
        elif isinstance(node, ast.Attribute):
            bag[("attr", node.attr)] += 1
        elif isinstance(node, ast.keyword) and node.arg:
            bag[("kw", node.arg)] += 1
        elif isinstance(node, ast.Constant):
            bag[("const", repr(node.value))] += 1
        elif isinstance(node, ast.alias):
            bag[("import", node.name)] += 1
            if node.asname:
                bag[("asname", node.asname)] += 1
        elif isinstance(node, ast.ImportFrom):
            bag[("from", node.module or ".")] += 1
        elif isinstance(node, (ast.FunctionDef, ast.AsyncFunctionDef, ast.ClassDef)):
            bag[("def", node.name)] += 1
        elif isinstance(node, ast.arg):
            bag[("param", node.arg)] += 1
    return bag
