"""Run the real codemodder in this interpreter with probes at the pipeline's linearization points.

No source hook is needed: every event below is a public call boundary, recorded by wrapping (§4.1 of
DESIGN.md).  Probes are installed once per process and record only while a `Recorder` is active.
"""
from __future__ import annotations

import contextlib
import io
import logging
import json
import os
import sys
import threading
import time
from pathlib import Path

from .common import sha

_installed = False
_active: "Recorder | None" = None
_lock = threading.Lock()
_tls = threading.local()


class InjectedFault(Exception):
    """Raised by the harness inside a wrapped call to model a transformer that blows up (C10)."""


class Recorder:
    def __init__(self, directory: str | None, inject: dict | None = None):
        self.events: list[dict] = []
        self.seq = 0
        self.contents: dict[str, bytes | None] = {}
        self.directory = Path(directory).resolve() if directory else None
        self.inject = inject or {}
        self.cur_codemod: str | None = None
        self.file_counter: dict[str, int] = {}
        self.in_parse = False

    def emit(self, ev: str, **kw) -> dict:
        with _lock:
            self.seq += 1
            rec = {"ev": ev, "seq": self.seq, **kw}
            self.events.append(rec)
            return rec

    def intern(self, data: bytes | None) -> str:
        if data is None:
            return "absent"
        k = sha(data)
        self.contents.setdefault(k, data)
        return k

    def rel(self, p) -> str:
        p = Path(p)
        try:
            return str(p.resolve().relative_to(self.directory)) if self.directory else str(p)
        except ValueError:
            return str(p)


def holds_report(path) -> bool:
    """the report was WRITTEN: the file holds a JSON document (an empty or truncated leftover of a failed write is not a report)"""
    try:
        with open(path, "rb") as f:
            data = f.read()
        return bool(data.strip()) and isinstance(json.loads(data), dict)
    except (OSError, ValueError):
        return False


_tcount: dict = {}
_tcount_lock = threading.Lock()


def _faults(inject: dict, key: str) -> list[dict]:
    """an injection is one fault or a list of faults of that kind"""
    v = inject.get(key)
    if not v:
        return []
    return list(v) if isinstance(v, (list, tuple)) else [v]


def _read(p) -> bytes | None:
    try:
        return Path(p).read_bytes()
    except OSError:
        return None


def _finding(f):
    return [str(f.id), str(f.rule.id)]


def _changeset(cs) -> dict:
    return {
        "path": cs.path,
        "diff": cs.diff,
        "changes": [
            {
                "line": ch.lineNumber,
                "desc": ch.description,
                "findings": [_finding(f) for f in (ch.findings or [])],
            }
            for ch in cs.changes
        ],
    }


def _unfixed(u) -> dict:
    return {"id": str(u.id), "rule": str(u.rule.id), "path": u.path, "line": u.lineNumber, "reason": u.reason}


def install() -> None:
    """Wrap the linearization points.  Idempotent."""
    global _installed
    if _installed:
        return
    _installed = True

    from codemodder import codemodder as cm_main
    from codemodder import codetf, context, registry
    from codemodder.codemods import base_codemod, libcst_transformer

    # ---- Selected
    orig_match = registry.CodemodRegistry.match_codemods

    def match_codemods(self, codemod_include=None, codemod_exclude=None, sast_only=False):
        out = orig_match(self, codemod_include, codemod_exclude, sast_only)
        if _active is not None:
            _active.emit(
                "Selected",
                ids=[c.id for c in out],
                include=list(codemod_include or []),
                exclude=list(codemod_exclude or []),
                sast=bool(sast_only),
                inparse=bool(getattr(_active, "in_parse", False)),
                registry=[[c.id, c.origin] for c in self.codemods],
            )
        return out

    registry.CodemodRegistry.match_codemods = match_codemods

    # ---- argument parsing (--describe consults the registry from inside the parser)
    orig_parse = cm_main.parse_args

    def parse_args(*args, **kwargs):
        rec = _active
        if rec is not None:
            rec.in_parse = True
        try:
            return orig_parse(*args, **kwargs)
        finally:
            if rec is not None:
                rec.in_parse = False

    cm_main.parse_args = parse_args

    # ---- Prefilter
    orig_find = cm_main.find_semgrep_results

    def find_semgrep_results(context_, codemods, files_to_analyze=None):
        out = orig_find(context_, codemods, files_to_analyze)
        if _active is not None:
            _active.emit(
                "Prefilter",
                rules={r: sorted(_active.rel(f) for f in out.files_for_rule(r)) for r in out.all_rule_ids()},
                maxWorkers=context_.max_workers,
                dryRun=bool(context_.dry_run),
                files=sorted(_active.rel(f) for f in context_.files_to_analyze),
                ffPaths=sorted(_active.rel(f) for f in (files_to_analyze or [])),
            )
        return out

    cm_main.find_semgrep_results = find_semgrep_results

    # ---- CodemodStart / CodemodEnd
    orig_apply = base_codemod.BaseCodemod._apply

    def _apply(self, context_, rules, *args, **kwargs):
        rec = _active
        if rec is None:
            return orig_apply(self, context_, rules, *args, **kwargs)
        rec.cur_codemod = self.id
        rec.emit("CodemodStart", c=self.id, rules=list(rules), tool=self._metadata.tool.name if self._metadata.tool else None)
        err = None
        try:
            return orig_apply(self, context_, rules, *args, **kwargs)
        except BaseException as e:  # noqa: BLE001 - logged, re-raised
            err = type(e).__name__
            raise
        finally:
            rec.emit("CodemodEnd", c=self.id, err=err)

    base_codemod.BaseCodemod._apply = _apply

    # ---- FileBegin / FileEnd
    orig_pf = base_codemod.BaseCodemod._process_file

    def _process_file(self, filename, context, results, rules):
        rec = _active
        if rec is None:
            return orig_pf(self, filename, context, results, rules)
        rel = rec.rel(filename)
        pre = _read(filename)
        with _lock:
            k = rec.file_counter.get(self.id, 0)
            rec.file_counter[self.id] = k + 1
        rec.emit("FileBegin", c=self.id, f=rel, tid=threading.get_ident(), pre=rec.intern(pre), idx=k)
        inj = rec.inject
        d = inj.get("delay", {}).get(rel)
        if d is None:
            d = inj.get("delay_all")
        if d:
            time.sleep(d)
        fc = None
        err = None
        _tls.file = (rel, self.id)
        _tls.nodes = 0
        try:
            for fault in _faults(inj, "raise_in_process_file"):
                if (fault.get("c") in (None, self.id)) and fault.get("f") == rel:
                    raise InjectedFault("injected by harness in _process_file")
            for vanish in _faults(inj, "vanish"):
                if (vanish.get("c") in (None, self.id)) and vanish.get("f") == rel:
                    with contextlib.suppress(OSError):
                        os.unlink(filename)
                        rec.emit("EnvChange", f=rel, post="absent")
            fc = orig_pf(self, filename, context, results, rules)
            return fc
        except BaseException as e:  # noqa: BLE001
            err = type(e).__name__
            raise
        finally:
            post = _read(filename)
            info: dict = {}
            if fc is not None:
                info = {
                    "changesets": [_changeset(cs) for cs in fc.changesets],
                    "failures": [rec.rel(p) for p in fc.failures],
                    "unfixed": [_unfixed(u) for u in fc.unfixed_findings],
                    "deps": sorted(str(d_.requirement) for d_ in fc.dependencies),
                    "nresults": None if fc.results is None else len(fc.results),
                    "results": None
                    if fc.results is None
                    else [
                        {
                            "rule": r.rule_id,
                            "fid": str(getattr(r, "finding_id", "")),
                            "locs": [[l.start.line, l.start.column, l.end.line, l.end.column] for l in r.locations],
                        }
                        for r in fc.results
                    ],
                    "lineInclude": list(fc.line_include),
                    "lineExclude": list(fc.line_exclude),
                }
            rec.emit("FileEnd", c=self.id, f=rel, pre=rec.intern(pre), post=rec.intern(post), err=err, **info)

    base_codemod.BaseCodemod._process_file = _process_file

    # ---- Write (libcst pipeline)
    orig_update = libcst_transformer.update_code

    def update_code(file_path, *args, **kwargs):  # signature-tolerant: only the path is looked at
        rec = _active
        if rec is None:
            return orig_update(file_path, *args, **kwargs)
        pre = _read(file_path)
        try:
            w = rec.inject.get("raise_in_write")
            if w and w.get("f") == rec.rel(file_path):
                raise OSError(28, "No space left on device (injected by harness)")
            return orig_update(file_path, *args, **kwargs)
        finally:
            rec.emit("Write", f=rec.rel(file_path), pre=rec.intern(pre), post=rec.intern(_read(file_path)), c=rec.cur_codemod)

    libcst_transformer.update_code = update_code

    # ---- transformer fault injection (C10): raising at the j-th visited node
    orig_transform = libcst_transformer.LibcstResultTransformer.transform.__func__

    def transform(cls, module, results, file_context):
        rec = _active
        if rec is not None:
            d = rec.inject.get("delay_transform", {}).get(rec.rel(file_context.file_path))
            if d:
                time.sleep(d)
            for fault in _faults(rec.inject, "raise_in_transform"):
                if fault.get("f") == rec.rel(file_context.file_path) and fault.get("c") in (None, rec.cur_codemod):
                    if "t" in fault:   # only the t-th transformer of the pipeline (counted per codemod and file)
                        key = (rec.cur_codemod, rec.rel(file_context.file_path))
                        with _tcount_lock:
                            _tcount[key] = _tcount.get(key, 0) + 1
                            if _tcount[key] != fault["t"]:
                                continue
                    raise InjectedFault("injected by harness in transform")
        out_tree = orig_transform(cls, module, results, file_context)
        if rec is not None:
            for fault in _faults(rec.inject, "malformed_tree"):
                if fault.get("f") == rec.rel(file_context.file_path) and fault.get("c") in (None, rec.cur_codemod):
                    import libcst as _cst

                    # a statement line nested in a statement line: libcst can build it, but not print it
                    bad = _cst.SimpleStatementLine(body=[_cst.SimpleStatementLine(body=[_cst.Pass()])])
                    return out_tree.with_changes(body=[bad, *out_tree.body])
        return out_tree

    libcst_transformer.LibcstResultTransformer.transform = classmethod(transform)

    # ---- transformer raising at the j-th visited node of a given (codemod, file)
    import libcst

    orig_on_visit = libcst.CSTTransformer.on_visit

    def on_visit(self, node):
        rec = _active
        if rec is not None:
            cur = getattr(_tls, "file", None)
            fault = next((x for x in _faults(rec.inject, "raise_at_node") if cur and cur[0] == x.get("f") and x.get("c") in (None, cur[1])), None)
            if fault and isinstance(self, libcst_transformer.LibcstResultTransformer):
                _tls.nodes = getattr(_tls, "nodes", 0) + 1
                if fault.get("n") == "after-first-change":
                    # the first node visited after the transformer recorded a change
                    if getattr(getattr(self, "file_context", None), "codemod_changes", None):
                        raise InjectedFault("injected by harness at the node after the first recorded change")
                elif _tls.nodes == fault.get("n", 1):
                    raise InjectedFault("injected by harness at a visited node")
        return orig_on_visit(self, node)

    libcst.CSTTransformer.on_visit = on_visit

    # ---- Merge
    orig_pr = context.CodemodExecutionContext.process_results

    def process_results(self, codemod_id, *args, **kwargs):
        rec = _active
        try:
            return orig_pr(self, codemod_id, *args, **kwargs)
        finally:
            if rec is not None:
                rec.emit(
                    "Merge",
                    c=codemod_id,
                    changesets=[cs.path for cs in self.get_changesets(codemod_id)],
                    failures=[rec.rel(p) for p in self.get_failures(codemod_id)],
                    unfixed=len(self.get_unfixed_findings(codemod_id)),
                    deps=sorted(str(d_.requirement) for d_ in self.dependencies.get(codemod_id, ())),
                )

    context.CodemodExecutionContext.process_results = process_results

    # ---- Deps
    orig_pd = context.CodemodExecutionContext.process_dependencies

    def process_dependencies(self, codemod_id, *args, **kwargs):
        rec = _active
        if rec is None:
            return orig_pd(self, codemod_id, *args, **kwargs)
        stores = [rec.rel(s.file) for s in (self.repo_manager.package_stores or [])]
        before = {s: rec.intern(_read(rec.directory / s)) for s in stores}
        n_before = len(self.get_changesets(codemod_id))
        out = None
        err = None
        try:
            out = orig_pd(self, codemod_id, *args, **kwargs)
            return out
        except BaseException as e:  # noqa: BLE001
            err = type(e).__name__
            raise
        finally:
            after = {s: rec.intern(_read(rec.directory / s)) for s in stores}
            new_cs = self.get_changesets(codemod_id)[n_before:]
            chosen = self._dependency_update_by_codemod.get(codemod_id)
            rec.emit(
                "Deps",
                c=codemod_id,
                wanted=sorted(str(d_.requirement) for d_ in self.dependencies.get(codemod_id, ())),
                stores=stores,
                before=before,
                after=after,
                chosen=rec.rel(chosen.file) if chosen else None,
                changesets=[_changeset(cs) for cs in new_cs],
                err=err,
            )

    context.CodemodExecutionContext.process_dependencies = process_dependencies

    # ---- ReportBuilt / ReportWritten
    orig_build = codetf.CodeTF.build.__func__

    def build(cls, *args, **kwargs):
        out = orig_build(cls, *args, **kwargs)
        if _active is not None:
            _active.emit("ReportBuilt", report=out.model_dump(mode="json", exclude_none=True))
        return out

    codetf.CodeTF.build = classmethod(build)

    orig_write = codetf.CodeTF.write_report

    def write_report(self, outfile, *args, **kwargs):
        rc = None
        try:
            rc = orig_write(self, outfile, *args, **kwargs)
            return rc
        finally:
            if _active is not None:
                # a special file (/dev/null, a pipe) cannot be inspected afterwards: the status is all there is
                regular = os.path.isfile(outfile) or not os.path.exists(outfile)
                _active.emit("ReportWritten", rc=rc, out=str(outfile), exists=holds_report(outfile) if regular else rc == 0)

    codetf.CodeTF.write_report = write_report


def clear_caches() -> None:
    """Memoised loaders keep results between runs of one process; a real CLI invocation starts clean."""
    from core_codemods.defectdojo import api as dd_api
    from core_codemods.defectdojo import results as dd_results
    from core_codemods.sonar import api as sonar_api
    from core_codemods.sonar import results as sonar_results
    from codemodder.codemods import semgrep as cm_semgrep

    for fn in (
        sonar_api.process_sonar_findings,
        dd_api._process_results,
        cm_semgrep.process_semgrep_findings,
        sonar_results.SonarResultSet.from_json,
        dd_results.DefectDojoResultSet.from_json,
    ):
        with contextlib.suppress(AttributeError):
            fn.cache_clear()
    with contextlib.suppress(Exception):
        from codemodder.codemods import codeql as cm_codeql

        cm_codeql.process_codeql_findings.cache_clear()


def run_codemodder(argv: list[str], *, inject: dict | None = None, env: dict | None = None, capture: bool = True) -> dict:
    """One in-process CLI run.  Returns {exit, events, contents, stdout, stderr, exc}."""
    global _active
    install()
    clear_caches()
    from codemodder import codemodder as cm_main

    directory = None
    for a in argv:
        if not a.startswith("-") and os.path.isdir(a):
            directory = a
            break
    rec = Recorder(directory, inject)
    logging.root.handlers.clear()
    out, err = io.StringIO(), io.StringIO()
    saved_env = {}
    for k, v in (env or {}).items():
        saved_env[k] = os.environ.get(k)
        if v is None:
            os.environ.pop(k, None)
        else:
            os.environ[k] = v
    exit_code = None
    exc = None
    rec.emit("RunStart", argv=list(argv))
    _tcount.clear()
    _active = rec
    try:
        with contextlib.redirect_stdout(out) if capture else contextlib.nullcontext():
            with contextlib.redirect_stderr(err) if capture else contextlib.nullcontext():
                try:
                    exit_code = cm_main.run(list(argv))
                except SystemExit as e:
                    code = e.code
                    exit_code = 0 if code is None else (code if isinstance(code, int) else 1)
                    rec.emit("SysExit", code=exit_code)
                except BaseException as e:  # noqa: BLE001 - a crash is an observation (exit status 1 + traceback)
                    exc = f"{type(e).__name__}: {e}"
                    exit_code = 1
    finally:
        _active = None
        logging.root.handlers.clear()
        for k, v in saved_env.items():
            if v is None:
                os.environ.pop(k, None)
            else:
                os.environ[k] = v
    rec.emit("RunEnd", exit=exit_code, exc=exc)
    return {
        "exit": exit_code,
        "exc": exc,
        "directory": directory,
        "events": rec.events,
        "contents": rec.contents,
        "stdout": out.getvalue(),
        "stderr": err.getvalue(),
    }
