"""Batch validation of abstract traces against spec/Trace_Run.tla with TLC (M3)."""
from __future__ import annotations

import json
import re
from pathlib import Path

from . import tlc
from .common import MachineryFailure, scratch

_VERDICT = re.compile(r'<<\s*"VERDICT",\s*"((?:[^"\\]|\\.)*)",\s*"((?:[^"\\]|\\.)*)"\s*>>')


def _parse_set(s: str) -> list[str]:
    s = s.replace('\\"', '"')
    return re.findall(r'"([^"]*)"', s)


def validate(traces: list[dict], *, module: str = "Trace_Run", cfg: str = "Trace_Run.cfg", batch: int = 400, workers: int = 8):
    """Returns (verdicts: id -> [failed clauses], stats: [TlcResult]).  Every trace gets a verdict or it is a
    machinery failure."""
    verdicts: dict[str, list[str]] = {}
    stats = []
    ids = [t["id"] for t in traces]
    if len(set(ids)) != len(ids):
        raise MachineryFailure("duplicate trace ids in batch")
    for i in range(0, len(traces), batch):
        part = traces[i : i + batch]
        d = scratch("trace")
        f = d / "traces.json"
        f.write_text(json.dumps(part))
        res = tlc.run_tlc(
            tlc.SPEC_DIR, module, cfg, workers=workers, env={"TRACE_FILE": str(f)}, cont=True, timeout=1800,
        )
        stats.append(res)
        out = res.output
        # PrintT values longer than a line are wrapped by TLC: normalise whitespace first
        flat = re.sub(r"\s*\n\s*", " ", out)
        for m in _VERDICT.finditer(flat):
            verdicts[m.group(1)] = _parse_set(m.group(2))
        missing = [t["id"] for t in part if t["id"] not in verdicts]
        if missing:
            raise MachineryFailure(
                f"TLC gave no verdict for {len(missing)} trace(s), e.g. {missing[0]} - trace not consumed to its end:\n{out[-2500:]}"
            )
        # cross-check: the number of TraceAccepted violations TLC reports = number of rejected traces
        rejected = sum(1 for t in part if verdicts[t["id"]])
        tlc_rejected = sum(1 for k, n, _ in res.violated if n == "TraceAccepted")
        if tlc_rejected != rejected:
            raise MachineryFailure(f"TLC reported {tlc_rejected} rejected traces, VERDICT lines say {rejected}")
    return verdicts, stats
