"""Concretizers for the run-level scenario space (spec/ProgramSpace.tla): sources, layouts, manifests, sequences."""
from __future__ import annotations

# ---------------------------------------------------------------- source programs (several codemods per line / file)
PROGRAMS = {
    "requests": 'import requests\n\nresp = requests.get("http://example.com", verify=False)\nprint(resp)\n',
    "subprocess": 'import subprocess\n\nsubprocess.run("ls -l", shell=True)\nvalues = set([1, 2])\n',
    "yaml": "import yaml\n\ndata = yaml.load(open('f'), Loader=yaml.Loader)\nitems = set([3])\n",
    "random": "import random\n\nn = random.random()\nflag = any([x for x in range(3)])\n",
    "xml": "from xml.etree.ElementTree import parse\n\net = parse('some.xml')\nassert (1, 'x')\n",
    "pickle": "import pickle\n\nobj = pickle.load(open('p', 'rb'))\ns = set(['a'])\n",
    # two codemods that need the same package (security)
    "both": 'import requests\nimport subprocess\nimport sys\n\nurl = sys.argv[0]\nresp = requests.get(url)\ncmd = sys.argv[-1]\nsubprocess.run(cmd)\nvalues = set([1, 2])\n',
    "plain": "def f(v=[]):\n    return any([i for i in v])\n\nx = set([1, 2])\n",
}
# codemods that have a trigger in each program, in a sensible execution order
TRIGGERS = {
    "requests": ["pixee:python/url-sandbox", "pixee:python/requests-verify", "pixee:python/add-requests-timeouts"],
    "subprocess": ["pixee:python/subprocess-shell-false", "pixee:python/sandbox-process-creation", "pixee:python/use-set-literal"],
    "yaml": ["pixee:python/harden-pyyaml", "pixee:python/use-set-literal"],
    "random": ["pixee:python/secure-random", "pixee:python/use-generator"],
    "xml": ["pixee:python/use-defusedxml", "pixee:python/fix-assert-tuple"],
    "pickle": ["pixee:python/harden-pickle-load", "pixee:python/use-set-literal"],
    "both": ["pixee:python/url-sandbox", "pixee:python/sandbox-process-creation", "pixee:python/use-set-literal"],
    "plain": ["pixee:python/fix-mutable-params", "pixee:python/use-generator", "pixee:python/use-set-literal"],
}
DEP_ADDING = {"pixee:python/url-sandbox", "pixee:python/sandbox-process-creation", "pixee:python/use-defusedxml", "pixee:python/harden-pickle-load"}
DETECTORLESS = {"pixee:python/use-set-literal", "pixee:python/use-generator", "pixee:python/fix-assert-tuple", "pixee:python/fix-mutable-params",
                "pixee:python/use-defusedxml", "pixee:python/harden-pickle-load", "pixee:python/subprocess-shell-false"}

LAYOUTS = ["lf", "crlf", "cr", "nofinalnl", "bom", "formfeed", "unicodesep", "tabs", "trailingws", "nonascii", "vtab", "mixedeol"]


def apply_layout(text: str, layout: str) -> str:
    if layout == "lf":
        return text
    if layout == "crlf":
        return text.replace("\n", "\r\n")
    if layout == "cr":
        return text.replace("\n", "\r")
    if layout == "mixedeol":
        # a file whose first line ends in CRLF, the others in LF (and a trailing CRLF line): edited on several systems
        first, _, rest = text.partition("\n")
        return first + "\r\n" + rest + "tail = 1\r\n"
    if layout == "nofinalnl":
        return text.rstrip("\n")
    if layout == "bom":
        return "﻿" + text
    if layout == "formfeed":
        return text + 'title = "page one\x0cpage two"\n# section\x0cbreak\n'
    if layout == "unicodesep":
        return text + 'sep = "a b\x85c\x1cd"\n'
    if layout == "vtab":
        return text + "# vertical\x0btab in a comment\nlabel = 'v\x0bt'\n"
    if layout == "tabs":
        body = "".join("\t" + ln if ln.strip() else ln for ln in text.splitlines(keepends=True))
        # imports stay at module level
        lines = text.splitlines(keepends=True)
        head = [ln for ln in lines if ln.startswith(("import ", "from "))]
        rest = [ln for ln in lines if not ln.startswith(("import ", "from "))]
        _ = body
        return "".join(head) + "if True:\n" + "".join("\t" + ln if ln.strip() else ln for ln in rest)
    if layout == "trailingws":
        return "".join((ln.rstrip("\n") + "   \n") if ln.strip() and not ln.startswith(("def ", "if ")) else ln for ln in text.splitlines(keepends=True))
    if layout == "nonascii":
        return "# -*- coding: utf-8 -*-\n" + text + 'name = "héllo ✓ 日本"  # commentaire é\n'
    raise ValueError(layout)


# ---------------------------------------------------------------- manifests
MANIFESTS = {
    "none": {},
    "requirements": {"requirements.txt": "requests==2.31.0\n# a comment\nflask>=2.0\n"},
    "requirements-nonl": {"requirements.txt": "requests==2.31.0\nflask>=2.0"},
    "requirements-crlf": {"requirements.txt": "requests==2.31.0\r\nflask>=2.0\r\n"},
    "pyproject": {"pyproject.toml": '[project]\nname = "demo"\nversion = "0.1"\ndependencies = [\n    "requests",\n    "flask>=2.0",\n]\n'},
    "setuppy": {"setup.py": 'from setuptools import setup\n\nsetup(\n    name="demo",\n    install_requires=[\n        "requests",\n        "flask>=2.0",\n    ],\n)\n'},
    # setup.py is a manifest AND a Python source: it holds a trigger of its own (set literal) for a later codemod
    "setuppy-trigger": {"setup.py": 'from setuptools import setup\n\nEXTRAS = set(["dev", "test"])\n\nsetup(\n    name="demo",\n    install_requires=[\n        "requests",\n    ],\n)\n'},
    # setup.py is a manifest AND holds the very trigger whose fix needs the new package: the same codemod rewrites the
    # file and then adds the dependency to it (filled in by project_files: the program text followed by the setup() call)
    "setuppy-self": {"setup.py": None},
    # setup.py that starts with a UTF-8 byte order mark
    "setuppy-bom": {"setup.py": '\ufefffrom setuptools import setup\n\nsetup(\n    name="demo",\n    install_requires=[\n        "requests",\n    ],\n)\n'},
    # trailing blank lines after the last requirement
    "requirements-blanktail": {"requirements.txt": "requests==2.31.0\nflask>=2.0\n\n\n"},
    "setupcfg": {"setup.cfg": "[metadata]\nname = demo\n\n[options]\ninstall_requires =\n    requests\n    flask>=2.0\n"},
    "pyproject+requirements": {
        "pyproject.toml": '[project]\nname = "demo"\nversion = "0.1"\ndependencies = [\n    "requests",\n]\n',
        "requirements.txt": "requests\n",
    },
    "setupcfg+setuppy": {
        "setup.cfg": "[metadata]\nname = demo\n\n[options]\ninstall_requires =\n    requests\n",
        "setup.py": 'from setuptools import setup\n\nsetup(name="demo", install_requires=["requests"])\n',
    },
}


def project_files(program: str, layout: str, manifest: str, extra_copies: int = 0) -> dict:
    files = {}
    src = apply_layout(PROGRAMS[program], layout)
    files["app.py"] = src
    for k in range(extra_copies):
        files[f"pkg/mod{k}.py"] = apply_layout(PROGRAMS[program], "lf")
    files.update(MANIFESTS[manifest])
    if manifest == "setuppy-self":
        files["setup.py"] = (PROGRAMS[program].rstrip("\n") + '\n\nfrom setuptools import setup\n\nsetup(\n    name="demo",\n    install_requires=[\n        "flask",\n    ],\n)\n')
    return files
