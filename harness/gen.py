"""Run a generator specification (M2): TLC enumerates scenarios and computes the expected outcome."""
from __future__ import annotations

import shutil
from pathlib import Path

from . import tlaval, tlc
from .common import scratch


def write_data_module(dirpath: Path, name: str, defs: dict, extends: str = "") -> None:
    lines = [f"---- MODULE {name} ----"]
    lines.append(f"EXTENDS {extends or 'TLC'}")
    for k, v in defs.items():
        lines.append(f"{k} == {v if isinstance(v, RawTla) else tlaval.to_tla(v)}")
    lines.append("====")
    (dirpath / f"{name}.tla").write_text("\n".join(lines) + "\n")


class RawTla(str):
    """A TLA+ expression given verbatim."""


def run_generator(module: str, data_name: str | None, data: dict | None, *, cfg: str | None = None, workers="auto",
                  timeout: int = 1500, extends: str = "", extra_modules: dict | None = None) -> tlc.TlcResult:
    d = scratch("gen")
    shutil.copy(tlc.SPEC_DIR / f"{module}.tla", d / f"{module}.tla")
    cfg = cfg or f"{module}.cfg"
    shutil.copy(tlc.SPEC_DIR / cfg, d / cfg)
    if data_name:
        write_data_module(d, data_name, data or {}, extends)
    for n, defs in (extra_modules or {}).items():
        write_data_module(d, n, defs)
    res = tlc.run_tlc(d, module, cfg, workers=workers, dump=True, timeout=timeout)
    if res.violated:
        # a lemma about the reference semantics itself failed: that is a defect of the specification
        raise tlc.TlcFailure(f"generator {module}: reference lemma violated: {res.violated[0][:2]}\n{res.output[-1500:]}")
    shutil.rmtree(d, ignore_errors=True)
    return res
