"""Independent re-parsers of the four dependency manifest formats (C14) and the manifest text corpus."""
from __future__ import annotations

import ast
import configparser
import re
import tomllib

from packaging.requirements import InvalidRequirement, Requirement


def norm(name: str) -> str:
    return re.sub(r"[-_.]+", "-", name).lower()


class Unparseable(ValueError):
    pass


def _req(s: str):
    s = s.strip()
    if not s:
        return None
    try:
        r = Requirement(s)
    except InvalidRequirement as ex:
        raise Unparseable(f"bad requirement {s!r}: {ex}") from ex
    return (norm(r.name), str(r.specifier), str(r.marker) if r.marker else "", ",".join(sorted(r.extras)))


def parse_requirements_txt(text: str) -> list:
    out = []
    for raw in text.replace("\r\n", "\n").replace("\r", "\n").split("\n"):
        line = raw.split(" #")[0].strip()
        if not line or line.startswith("#") or line.startswith("-") or line.startswith("--"):
            continue
        r = _req(line.rstrip("\\").strip())
        if r:
            out.append(r)
    return out


def parse_pyproject(text: str) -> list:
    try:
        doc = tomllib.loads(text)
    except tomllib.TOMLDecodeError as ex:
        raise Unparseable(f"toml: {ex}") from ex
    out = []
    for d in doc.get("project", {}).get("dependencies", []) or []:
        out.append(_req(d))
    poetry = doc.get("tool", {}).get("poetry", {})
    for sect in [poetry.get("dependencies", {})] + [g.get("dependencies", {}) for g in poetry.get("group", {}).values()] + [poetry.get("dev-dependencies", {})]:
        for name, spec in (sect or {}).items():
            if name.lower() == "python":
                continue
            out.append((norm(name), str(spec) if not isinstance(spec, dict) else str(spec.get("version", "")), "", ""))
    return out


def parse_setup_py(text: str) -> list:
    try:
        tree = ast.parse(text)
    except SyntaxError as ex:
        raise Unparseable(f"setup.py: {ex}") from ex
    out = []
    for node in ast.walk(tree):
        if isinstance(node, ast.Call) and getattr(node.func, "id", getattr(node.func, "attr", "")) == "setup":
            for kw in node.keywords:
                if kw.arg == "install_requires" and isinstance(kw.value, (ast.List, ast.Tuple)):
                    for el in kw.value.elts:
                        if isinstance(el, ast.Constant) and isinstance(el.value, str):
                            out.append(_req(el.value))
    return out


def parse_setup_cfg(text: str) -> list:
    cp = configparser.ConfigParser()
    try:
        cp.read_string(text)
    except configparser.Error as ex:
        raise Unparseable(f"setup.cfg: {ex}") from ex
    out = []
    if cp.has_option("options", "install_requires"):
        raw = cp.get("options", "install_requires")
        lines = [ln.strip() for ln in raw.split("\n") if ln.strip()]
        if len(lines) > 1:
            parts = lines
        else:
            # one line: requirements separated by commas (a comma inside a version specifier is followed by an operator)
            parts = re.split(r",\s*(?=[A-Za-z])", lines[0]) if lines else []
        for p in parts:
            r = _req(p)
            if r:
                out.append(r)
    return out


PARSERS = {"requirements.txt": parse_requirements_txt, "pyproject.toml": parse_pyproject, "setup.py": parse_setup_py, "setup.cfg": parse_setup_cfg}


def parse(path: str, text: str) -> list:
    return PARSERS[path.split("/")[-1]](text)


def comments(path: str, text: str) -> list[str]:
    out = []
    for ln in text.replace("\r\n", "\n").split("\n"):
        t = ln.strip()
        if t.startswith("#") or t.startswith(";"):
            out.append(t)
    return sorted(out)


# ------------------------------------------------------------------------------------------------ corpus
# {PKG}: the package as the codemod spells it; {ALT}: another PEP 503-equivalent spelling; states: see spec/Deps.tla
CORPUS = {
    "pyproject.toml": {
        "absent": [
            '[project]\nname = "demo"\nversion = "0.1"\ndependencies = [\n    "requests",\n    "flask>=2.0",\n]\n',
            '[build-system]\nrequires = ["setuptools"]\n\n# a comment\n[project]\nname = "demo"\ndependencies = ["requests>=2; python_version > \'3.8\'", "rich[jupyter]"]\n\n[tool.black]\nline-length = 100\n',
            '[project]\nname = "demo"\ndependencies = []\n',
            '[tool.poetry]\nname = "demo"\nversion = "0.1.0"\n\n[tool.poetry.dependencies]\npython = "^3.10"\nrequests = "^2.31"\n\n[tool.poetry.group.dev.dependencies]\npytest = "*"\n',
            '[project]\r\nname = "demo"\r\ndependencies = [\r\n    "requests",\r\n]\r\n',
        ],
        "same": ['[project]\nname = "demo"\ndependencies = [\n    "requests",\n    "{PKG}>=0.0.1",\n]\n',
                 '[tool.poetry]\nname = "demo"\nversion = "0.1.0"\n\n[tool.poetry.dependencies]\npython = "^3.10"\n{PKG} = "*"\n'],
        "spelled": ['[project]\nname = "demo"\ndependencies = [\n    "{ALT}",\n    "requests",\n]\n'],
        "unwritable": ['[build-system]\nrequires = ["setuptools"]\n\n[tool.black]\nline-length = 100\n', '[project]\nname = "demo"\nversion = "1"\n'],
    },
    "setup.py": {
        "absent": [
            'from setuptools import setup\n\nsetup(\n    name="demo",\n    install_requires=[\n        "requests",\n        "flask>=2.0",\n    ],\n)\n',
            'from setuptools import setup, find_packages\n\n# packaging\nsetup(name="demo", packages=find_packages(), install_requires=["requests"])\n',
            'import setuptools\n\nsetuptools.setup(\n    name="demo",\n    install_requires=[\n        "requests; python_version > \'3.8\'",  # marker\n        "rich[jupyter]",\n    ],\n    extras_require={"dev": ["pytest"]},\n)\n',
            'from setuptools import setup\r\n\r\nsetup(\r\n    name="demo",\r\n    install_requires=[\r\n        "requests",\r\n    ],\r\n)\r\n',
            "from setuptools import setup\n\nsetup(\n    name='demo',\n    install_requires=[\n        'requests',\n    ],\n)",
            'from setuptools import setup; setup(name="demo", install_requires=["requests"])\n',
        ],
        "same": ['from setuptools import setup\n\nsetup(\n    name="demo",\n    install_requires=[\n        "{PKG}",\n    ],\n)\n',
                 "from setuptools import setup\n\nsetup(name='demo', install_requires=['requests', '{PKG}>=0.0.1'])\n"],
        "spelled": ['from setuptools import setup\n\nsetup(name="demo", install_requires=["requests", "{ALT}>=0.1"])\n',
                    "from setuptools import setup\n\nsetup(name='demo', install_requires=['{ALT}'])\n"],
        "unwritable": ['from setuptools import setup\n\nsetup(name="demo")\n', 'from setuptools import setup\n\nsetup(name="demo", install_requires=[])\n'],
    },
    "requirements.txt": {
        "absent": [
            "requests==2.31.0\n# a comment\nflask>=2.0\n",
            "requests==2.31.0\nflask>=2.0",
            "requests==2.31.0\r\nflask>=2.0\r\n",
            "# pinned\n\nrequests[socks]==2.31.0 ; python_version > '3.8'\n-r base.txt\n--index-url https://example.invalid/simple\nflask>=2.0  # web\n",
            "",
            "\n",
        ],
        "same": ["requests\n{PKG}>=0.0.1\n", "{PKG}\n", "requests\n{PKG}==0.0.1\t# pinned on purpose\nflask  # web\n",
                 # as pip-compile --generate-hashes writes it: options on continuation lines
                 "requests==2.31.0 \\\n    --hash=sha256:aaaa \\\n    --hash=sha256:bbbb\n{PKG}==0.0.1 \\\n    --hash=sha256:cccc\n    # via -r requirements.in\n"],
        "spelled": ["requests\n{ALT}\n"],
        "unwritable": [],
    },
    "setup.cfg": {
        "absent": [
            "[metadata]\nname = demo\n\n[options]\ninstall_requires =\n    requests\n    flask>=2.0\n",
            "[metadata]\nname = demo\n\n[options]\n# deps\ninstall_requires = requests, flask>=2.0\n\n[options.extras_require]\ndev = pytest\n",
            "[metadata]\nname = demo\n\n[options]\ninstall_requires =\n    requests\n    flask\npython_requires = >=3.8\n\n[options.extras_require]\ndev =\n    flask\n",
            "[metadata]\r\nname = demo\r\n\r\n[options]\r\ninstall_requires =\r\n    requests\r\n    flask>=2.0\r\n",
            "[metadata]\nname = demo\n\n[options]\ninstall_requires =\n    requests",
            # the text of the last requirement also occurs earlier, in another list
            "[metadata]\nname = demo\n\n[options.extras_require]\ndev =\n    requests\n\n[options]\ninstall_requires =\n    flask\n    requests\n",
            "[metadata]\nname = demo\n\n[options]\nsetup_requires =\n    requests\ninstall_requires =\n    requests\n",
        ],
        "same": ["[metadata]\nname = demo\n\n[options]\ninstall_requires =\n    requests\n    {PKG}\n"],
        "spelled": ["[metadata]\nname = demo\n\n[options]\ninstall_requires =\n    {ALT}>=0.1\n    requests\n"],
        "unwritable": ["[metadata]\nname = demo\n", "[metadata]\nname = demo\n\n[options]\npackages = find:\n",
                       # the requirements live in another file: nothing can be appended to the directive
                       "[metadata]\nname = demo\n\n[options]\ninstall_requires = file: requirements/base.txt\n"],
    },
}

KINDS = ["pyproject.toml", "setup.py", "requirements.txt", "setup.cfg"]
