"""Generic, text-level variations of seed programs (spec/Variants.tla enumerates the feature vectors).

A variation never needs to understand the codemod: imports stay at module level, everything else is wrapped /
re-laid-out.  A variant that does not itself compile is discarded by the caller (and counted).
"""
from __future__ import annotations

import re

from .seeds import is_import_line

WRAPS = ["none", "function", "method", "if", "try", "with", "nested", "async", "loop"]
LAYOUTS = ["lf", "crlf", "nofinalnl", "tabs", "comments", "blanklines", "bom"]
MULTS = [1, 2]
IMPORTS = ["asis", "local", "decoy"]


def _split(text: str):
    lines = text.split("\n")
    head, body = [], []
    seen_code = False
    for ln in lines:
        if not seen_code and (is_import_line(ln) or ln.startswith("#")):
            head.append(ln)
        else:
            seen_code = True
            body.append(ln)
    while body and body[-1] == "":
        body.pop()
    return head, body


def _indent(lines, pad="    "):
    return [(pad + ln) if ln.strip() else ln for ln in lines]


def wrap(text: str, kind: str) -> str:
    if kind == "none":
        return text
    head, body = _split(text)
    if not body:
        return text
    b = _indent(body)
    if kind == "function":
        out = head + ["", "def wrapper_fn(arg=None):"] + b + ["", "wrapper_fn()"]
    elif kind == "method":
        out = head + ["", "class Holder:", "    def method(self, arg=None):"] + _indent(b) + ["", "Holder().method()"]
    elif kind == "if":
        out = head + ["", "if len(__name__) > 0:"] + b
    elif kind == "try":
        out = head + ["", "try:"] + b + ["except ZeroDivisionError:", "    raise"]
    elif kind == "with":
        out = head + ["", "import contextlib", "with contextlib.nullcontext():"] + b
    elif kind == "nested":
        out = head + ["", "def outer_fn():", "    def inner_fn():"] + _indent(b) + ["    return inner_fn()", "", "outer_fn()"]
    elif kind == "async":
        out = head + ["", "async def coro_fn():"] + b
    elif kind == "loop":
        out = head + ["", "for _i in range(1):"] + b
    else:
        raise ValueError(kind)
    return "\n".join(out) + "\n"


def layout(text: str, kind: str) -> str:
    if kind == "lf":
        return text
    if kind == "crlf":
        return text.replace("\n", "\r\n")
    if kind == "nofinalnl":
        return text.rstrip("\n")
    if kind == "tabs":
        return re.sub(r"^((?:    )+)", lambda m: "\t" * (len(m.group(1)) // 4), text, flags=re.M)
    if kind == "comments":
        return "# leading comment\n" + text.rstrip("\n") + "\n# trailing comment\n"
    if kind == "bom":
        return "\ufeff" + text
    if kind == "blanklines":
        return "\n\n" + text.rstrip("\n") + "\n\n\n"
    raise ValueError(kind)


def multiply(text: str, n: int) -> str:
    if n == 1:
        return text
    head, body = _split(text)
    return "\n".join(head + body + [""] + body) + "\n"


def local_imports(text: str) -> str:
    """Move plain `import x` lines into a function together with the body (function-local import)."""
    head, body = _split(text)
    imps = [ln for ln in head if ln.startswith("import ") or ln.startswith("from ")]
    rest = [ln for ln in head if ln not in imps]
    if not imps or not body:
        return text
    return "\n".join(rest + ["", "def local_scope():"] + _indent(imps) + _indent(body) + ["", "local_scope()"]) + "\n"


def decoy_imports(text: str, added: list[str]) -> str:
    """An unrelated function that imports, locally, the modules the fix is going to need at module level."""
    if not added:
        return text
    body = "\n".join("    " + ln.strip() for ln in added)
    return text.rstrip("\n") + "\n\n\ndef decoy_scope():\n" + body + "\n    return None\n"


def apply(text: str, vec: dict, added_imports: list[str] | None = None) -> str:
    t = text
    if vec.get("imp") == "local":
        t = local_imports(t)
    if vec.get("imp") == "decoy":
        t = decoy_imports(t, added_imports or [])
    t = multiply(t, vec.get("mult", 1))
    t = wrap(t, vec.get("wrap", "none"))
    t = layout(t, vec.get("layout", "lf"))
    return t
