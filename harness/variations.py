"""Generic, text-level variations of seed programs (spec/Variants.tla enumerates the feature vectors).

A variation never needs to understand the codemod: imports stay at module level, everything else is wrapped /
re-laid-out.  A variant that does not itself compile is discarded by the caller (and counted).
"""
from __future__ import annotations

import re

from .seeds import is_import_line

WRAPS = ["none", "function", "method", "if", "try", "with", "nested", "async", "loop"]
LAYOUTS = ["lf", "crlf", "nofinalnl", "tabs", "comments", "blanklines", "bom"]
MULTS = [1, 2]
IMPORTS = ["asis", "local", "decoy"]


def _split(text: str):
    lines = text.split("\n")
    head, body = [], []
    seen_code = False
    for ln in lines:
        if not seen_code and (is_import_line(ln) or ln.startswith("#")):
            head.append(ln)
        else:
            seen_code = True
            body.append(ln)
    while body and body[-1] == "":
        body.pop()
    return head, body


def _indent(lines, pad="    "):
    return [(pad + ln) if ln.strip() else ln for ln in lines]


def wrap(text: str, kind: str) -> str:
    if kind == "none":
        return text
    head, body = _split(text)
    if not body:
        return text
    b = _indent(body)
    if kind == "function":
        out = head + ["", "def wrapper_fn(arg=None):"] + b + ["", "wrapper_fn()"]
    elif kind == "method":
        out = head + ["", "class Holder:", "    def method(self, arg=None):"] + _indent(b) + ["", "Holder().method()"]
    elif kind == "if":
        out = head + ["", "if len(__name__) > 0:"] + b
    elif kind == "try":
        out = head + ["", "try:"] + b + ["except ZeroDivisionError:", "    raise"]
    elif kind == "with":
        out = head + ["", "import contextlib", "with contextlib.nullcontext():"] + b
    elif kind == "nested":
        out = head + ["", "def outer_fn():", "    def inner_fn():"] + _indent(b) + ["    return inner_fn()", "", "outer_fn()"]
    elif kind == "async":
        out = head + ["", "async def coro_fn():"] + b
    elif kind == "loop":
        out = head + ["", "for _i in range(1):"] + b
    else:
        raise ValueError(kind)
    return "\n".join(out) + "\n"


def layout(text: str, kind: str) -> str:
    if kind == "lf":
        return text
    if kind == "crlf":
        return text.replace("\n", "\r\n")
    if kind == "nofinalnl":
        return text.rstrip("\n")
    if kind == "tabs":
        return re.sub(r"^((?:    )+)", lambda m: "\t" * (len(m.group(1)) // 4), text, flags=re.M)
    if kind == "comments":
        return "# leading comment\n" + text.rstrip("\n") + "\n# trailing comment\n"
    if kind == "bom":
        return "\ufeff" + text
    if kind == "blanklines":
        return "\n\n" + text.rstrip("\n") + "\n\n\n"
    raise ValueError(kind)


def multiply(text: str, n: int) -> str:
    if n == 1:
        return text
    head, body = _split(text)
    return "\n".join(head + body + [""] + body) + "\n"


def local_imports(text: str) -> str:
    """Move plain `import x` lines into a function together with the body (function-local import)."""
    head, body = _split(text)
    imps = [ln for ln in head if ln.startswith("import ") or ln.startswith("from ")]
    rest = [ln for ln in head if ln not in imps]
    if not imps or not body:
        return text
    return "\n".join(rest + ["", "def local_scope():"] + _indent(imps) + _indent(body) + ["", "local_scope()"]) + "\n"


def decoy_imports(text: str, added: list[str]) -> str:
    """An unrelated function that imports, locally, the modules the fix is going to need at module level."""
    if not added:
        return text
    body = "\n".join("    " + ln.strip() for ln in added)
    return text.rstrip("\n") + "\n\n\ndef decoy_scope():\n" + body + "\n    return None\n"


ARGS = ["asis", "kwspread-last", "kwspread-mid", "extra-kw", "dict-spread", "same-line-pair", "multiline", "list-elements", "fstring-field", "inline-suite"]


def changed_lines(before: str, after: str) -> set[int]:
    import difflib

    a, b = before.split("\n"), after.split("\n")
    out = set()
    for tag, i1, i2, _j1, _j2 in difflib.SequenceMatcher(a=a, b=b, autojunk=False).get_opcodes():
        if tag in ("replace", "delete"):
            out.update(range(i1 + 1, i2 + 1))
    return out


def extend_args(text: str, kind: str, lines: set[int]) -> str | None:
    """Extend the argument list of every call that spans one of `lines` (1-based).  libcst is used here only as a
    parser / printer of the INPUT program; None when the variation does not apply."""
    import libcst as cst
    from libcst.metadata import MetadataWrapper, PositionProvider

    try:
        wrapper = MetadataWrapper(cst.parse_module(text))
    except Exception:  # noqa: BLE001
        return None
    applied = [0]

    class T(cst.CSTTransformer):
        METADATA_DEPENDENCIES = (PositionProvider,)

        def leave_Call(self, original_node, updated_node):
            pos = self.get_metadata(PositionProvider, original_node)
            if not any(pos.start.line <= ln <= pos.end.line for ln in lines):
                return updated_node
            args = list(updated_node.args)
            spread = cst.Arg(value=cst.Name("extra_kw"), star="**")
            if kind == "kwspread-last":
                if any(a.star == "**" for a in args):
                    return updated_node
                new = args + [spread]
            elif kind == "kwspread-mid":
                idx = next((i for i, a in enumerate(args) if a.keyword is not None), None)
                if any(a.star == "**" for a in args):
                    return updated_node
                sep = cst.Comma(whitespace_after=cst.SimpleWhitespace(" "))
                if idx is None:
                    # no keyword argument yet: the spread is followed by one more keyword
                    extra = cst.Arg(keyword=cst.Name("zz_extra"), value=cst.Name("zz_value"), equal=cst.AssignEqual(cst.SimpleWhitespace(""), cst.SimpleWhitespace("")))
                    if args and args[-1].comma is cst.MaybeSentinel.DEFAULT:
                        args[-1] = args[-1].with_changes(comma=sep)
                    new = args + [spread.with_changes(comma=sep), extra]
                else:
                    new = args[:idx] + [spread.with_changes(comma=sep)] + args[idx:]
            elif kind == "extra-kw":
                if any(a.star == "**" for a in args):
                    return updated_node
                new = args + [cst.Arg(keyword=cst.Name("zz_extra"), value=cst.Name("zz_value"), equal=cst.AssignEqual(cst.SimpleWhitespace(""), cst.SimpleWhitespace("")))]
            elif kind == "dict-spread":
                new, hit = [], False
                for a in args:
                    if isinstance(a.value, cst.Dict) and not any(isinstance(e, cst.StarredDictElement) for e in a.value.elements):
                        els = [cst.StarredDictElement(cst.Name("extra_map"), comma=cst.Comma(whitespace_after=cst.SimpleWhitespace(" ")))] + list(a.value.elements)
                        if len(els) == 1:
                            els = [cst.StarredDictElement(cst.Name("extra_map"))]
                        a = a.with_changes(value=a.value.with_changes(elements=els))
                        hit = True
                    new.append(a)
                if not hit:
                    return updated_node
            else:
                raise ValueError(kind)
            if len(new) > len(args) and args and kind not in ("kwspread-mid", "dict-spread"):
                # the former last argument needs a separator
                last = new[len(args) - 1]
                if last.comma is cst.MaybeSentinel.DEFAULT:
                    new[len(args) - 1] = last.with_changes(comma=cst.Comma(whitespace_after=cst.SimpleWhitespace(" ")))
            applied[0] += 1
            return updated_node.with_changes(args=new)

    try:
        out = wrapper.visit(T()).code
    except Exception:  # noqa: BLE001
        return None
    return out if applied[0] else None


def list_elements(text: str, lines: set[int]) -> str | None:
    """`x = <call>` / `<call>` on one of `lines` becomes a list literal with the call twice, one element per line."""
    import libcst as cst
    from libcst.metadata import MetadataWrapper, PositionProvider

    try:
        wrapper = MetadataWrapper(cst.parse_module(text))
    except Exception:  # noqa: BLE001
        return None
    applied = [0]

    class T(cst.CSTTransformer):
        METADATA_DEPENDENCIES = (PositionProvider,)

        def leave_SimpleStatementLine(self, original_node, updated_node):
            pos = self.get_metadata(PositionProvider, original_node)
            if pos.start.line != pos.end.line or pos.start.line not in lines or len(updated_node.body) != 1:
                return updated_node
            st = updated_node.body[0]
            if isinstance(st, (cst.Expr, cst.Assign)) and isinstance(st.value, cst.Call):
                nl = cst.ParenthesizedWhitespace(first_line=cst.TrailingWhitespace(newline=cst.Newline()), indent=True, last_line=cst.SimpleWhitespace("    "))
                end = cst.ParenthesizedWhitespace(first_line=cst.TrailingWhitespace(newline=cst.Newline()), indent=True, last_line=cst.SimpleWhitespace(""))
                lst = cst.List(
                    elements=[cst.Element(st.value, comma=cst.Comma(whitespace_after=nl)), cst.Element(st.value, comma=cst.Comma(whitespace_after=end))],
                    lbracket=cst.LeftSquareBracket(whitespace_after=nl), rbracket=cst.RightSquareBracket())
                applied[0] += 1
                return updated_node.with_changes(body=[st.with_changes(value=lst)])
            return updated_node

    try:
        out = wrapper.visit(T()).code
    except Exception:  # noqa: BLE001
        return None
    return out if applied[0] else None


def inline_suite(text: str, lines: set[int]) -> str | None:
    """A one-line simple statement on one of `lines` becomes the one-line body of `if True: <stmt>`: a rewrite that adds
    or removes statements around it meets a suite that is not an indented block."""
    import libcst as cst
    from libcst.metadata import MetadataWrapper, PositionProvider

    try:
        wrapper = MetadataWrapper(cst.parse_module(text))
    except Exception:  # noqa: BLE001
        return None
    applied = [0]

    class T(cst.CSTTransformer):
        METADATA_DEPENDENCIES = (PositionProvider,)

        def leave_SimpleStatementLine(self, original_node, updated_node):
            pos = self.get_metadata(PositionProvider, original_node)
            if pos.start.line != pos.end.line or pos.start.line not in lines or len(updated_node.body) != 1:
                return updated_node
            st = updated_node.body[0]
            if isinstance(st, (cst.Expr, cst.Assign, cst.Return, cst.Assert, cst.AugAssign)) and not isinstance(getattr(st, "value", None), cst.SimpleString):
                applied[0] += 1
                return cst.If(test=cst.Name("True"), body=cst.SimpleStatementSuite(body=[st], trailing_whitespace=updated_node.trailing_whitespace),
                              leading_lines=updated_node.leading_lines)
            return updated_node

    try:
        out = wrapper.visit(T()).code
    except Exception:  # noqa: BLE001
        return None
    return out if applied[0] else None


def fstring_field(text: str, lines: set[int]) -> str | None:
    """`x = <call>` / `<call>` on one of `lines` becomes `x = f"{<call>}"` / `f"{<call>}"`: the site is the replacement
    field of an f-string, where a rewrite that starts with a brace, or brings the quote of the string, changes the string."""
    import libcst as cst
    from libcst.metadata import MetadataWrapper, PositionProvider

    try:
        wrapper = MetadataWrapper(cst.parse_module(text))
    except Exception:  # noqa: BLE001
        return None
    applied = [0]

    class T(cst.CSTTransformer):
        METADATA_DEPENDENCIES = (PositionProvider,)

        def leave_SimpleStatementLine(self, original_node, updated_node):
            pos = self.get_metadata(PositionProvider, original_node)
            if pos.start.line != pos.end.line or pos.start.line not in lines or len(updated_node.body) != 1:
                return updated_node
            st = updated_node.body[0]
            if isinstance(st, (cst.Expr, cst.Assign)) and isinstance(st.value, cst.Call):
                code = cst.Module([]).code_for_node(st.value)
                if any(c in code for c in "\\\n#{}") or ('"' in code and "'" in code):
                    return updated_node
                q = "'" if '"' in code else '"'
                fs = cst.FormattedString(parts=[cst.FormattedStringExpression(expression=st.value)], start="f" + q, end=q)
                applied[0] += 1
                return updated_node.with_changes(body=[st.with_changes(value=fs)])
            return updated_node

    try:
        out = wrapper.visit(T()).code
    except Exception:  # noqa: BLE001
        return None
    return out if applied[0] else None


def same_line_pair(text: str, lines: set[int]) -> str | None:
    """`x = <call>` / `<call>` on one of `lines` becomes `x = (<call>, <call>)` / `(<call>, <call>)`: two sites of the
    same rule that start and end on the same line."""
    import libcst as cst
    from libcst.metadata import MetadataWrapper, PositionProvider

    try:
        wrapper = MetadataWrapper(cst.parse_module(text))
    except Exception:  # noqa: BLE001
        return None
    applied = [0]

    def pair(v):
        return cst.Tuple(elements=[cst.Element(v, comma=cst.Comma(whitespace_after=cst.SimpleWhitespace(" "))), cst.Element(v)],
                         lpar=[cst.LeftParen()], rpar=[cst.RightParen()])

    class T(cst.CSTTransformer):
        METADATA_DEPENDENCIES = (PositionProvider,)

        def leave_SimpleStatementLine(self, original_node, updated_node):
            pos = self.get_metadata(PositionProvider, original_node)
            if pos.start.line != pos.end.line or pos.start.line not in lines or len(updated_node.body) != 1:
                return updated_node
            st = updated_node.body[0]
            if isinstance(st, (cst.Expr, cst.Assign)) and isinstance(st.value, cst.Call):
                applied[0] += 1
                return updated_node.with_changes(body=[st.with_changes(value=pair(st.value))])
            return updated_node

    try:
        out = wrapper.visit(T()).code
    except Exception:  # noqa: BLE001
        return None
    return out if applied[0] else None


def multiline_parens(text: str, lines: set[int]) -> str | None:
    """`(a == b)` on one of `lines` becomes `(a ==` / `    b)`: a line break after the operator, inside the expression's
    own parentheses."""
    import libcst as cst
    from libcst.metadata import MetadataWrapper, PositionProvider

    try:
        wrapper = MetadataWrapper(cst.parse_module(text))
    except Exception:  # noqa: BLE001
        return None
    applied = [0]
    brk = cst.ParenthesizedWhitespace(first_line=cst.TrailingWhitespace(newline=cst.Newline()), indent=True, last_line=cst.SimpleWhitespace("        "))

    class T(cst.CSTTransformer):
        METADATA_DEPENDENCIES = (PositionProvider,)

        def __init__(self):
            super().__init__()
            self.depth = 0  # number of enclosing parenthesised expressions (a line break is legal inside them)

        def on_visit(self, node):
            if getattr(node, "lpar", None):
                self.depth += 1
            return super().on_visit(node)

        def on_leave(self, original_node, updated_node):
            out = super().on_leave(original_node, updated_node)
            if getattr(original_node, "lpar", None):
                self.depth -= 1
            return out

        def _hit(self, original_node):
            pos = self.get_metadata(PositionProvider, original_node)
            # the node's own parentheses count (depth was raised when it was entered)
            return self.depth > 0 and pos.start.line == pos.end.line and pos.start.line in lines

        def leave_Comparison(self, original_node, updated_node):
            if not self._hit(original_node):
                return updated_node
            first = updated_node.comparisons[0]
            applied[0] += 1
            return updated_node.with_changes(comparisons=[first.with_changes(operator=first.operator.with_changes(whitespace_after=brk)), *updated_node.comparisons[1:]])

        def leave_BooleanOperation(self, original_node, updated_node):
            if not self._hit(original_node):
                return updated_node
            applied[0] += 1
            return updated_node.with_changes(operator=updated_node.operator.with_changes(whitespace_before=brk))   # break BEFORE and/or

        def leave_BinaryOperation(self, original_node, updated_node):
            if not self._hit(original_node):
                return updated_node
            applied[0] += 1
            return updated_node.with_changes(operator=updated_node.operator.with_changes(whitespace_after=brk))

    try:
        out = wrapper.visit(T()).code
    except Exception:  # noqa: BLE001
        return None
    return out if applied[0] else None


def apply(text: str, vec: dict, added_imports: list[str] | None = None, expected: str | None = None) -> str | None:
    t = text
    if vec.get("args", "asis") != "asis":
        if expected is None:
            return None
        lines = changed_lines(text, expected) or set(range(1, text.count("\n") + 2))   # a probe has no expected output: every line
        if vec["args"] == "same-line-pair":
            t = same_line_pair(t, lines)
        elif vec["args"] == "multiline":
            t = multiline_parens(t, lines)
        elif vec["args"] == "list-elements":
            t = list_elements(t, lines)
        elif vec["args"] == "fstring-field":
            t = fstring_field(t, lines)
        elif vec["args"] == "inline-suite":
            t = inline_suite(t, lines)
        else:
            t = extend_args(t, vec["args"], lines)
        if t is None:
            return None
    if vec.get("imp") == "local":
        t = local_imports(t)
    if vec.get("imp") == "decoy":
        t = decoy_imports(t, added_imports or [])
    t = multiply(t, vec.get("mult", 1))
    t = wrap(t, vec.get("wrap", "none"))
    t = layout(t, vec.get("layout", "lf"))
    return t
