"""C18 - a codemod acts on what its own detector reports, and the result is clean.

For every find-and-fix codemod that detects with a semgrep rule of its own:

(1) the vendored seeds under the Variants.tla feature vectors (alias / nesting / layout variants, and the touched
    statement written twice on one line: several sites of one rule on the same line; multiplicity 1, because
    duplicating a snippet re-binds its names, which is one of the shapes a codemod may decline);
(2) runs of TWO rule-detected codemods over files holding a site of each, the earlier one moving the lines of the
    later one's site (the detector of the later codemod has to report on the file as it is by then).

Each project is run for real and then once more with --dry-run.  The findings the detector handed to each
(codemod, file) step are in the trace of the first run (flagged before: judged against the text that step read and the
text it left) and of the second (flagged after).  Compare events: every location flagged before lies in a region the
step rewrote (or the file is reported failed); nothing flagged after lies in a line the codemod itself wrote.
Trace_Run validates all traces.
"""
from __future__ import annotations

import difflib
import json
import os
from pathlib import Path

from .. import progspace, project
from ..common import Check

LEVEL = "exploration"
RULE = ("cases = (rule-detected codemod, pinned seed, feature vector incl. two sites on one line) programs and two-codemod runs over concatenated seeds, each run for real and re-detected with --dry-run; non-trivial when the codemod's own rule flags at least one location; distinct = distinct (codemod, seed, vector) / (queue, file)")
PINS = Path(__file__).resolve().parent.parent.parent / "corpus" / "c18_pins.json"


def rule_detected_codemods() -> list[str]:
    from codemodder.codemods.semgrep import SemgrepRuleDetector
    from codemodder.registry import load_registered_codemods

    return sorted(c.id for c in load_registered_codemods().codemods if c.origin == "pixee" and isinstance(c.detector, SemgrepRuleDetector))


def _file_ends(step: dict) -> dict:
    """(codemod, rel) -> last FileEnd event of that pair"""
    out = {}
    for e in step.get("events", []):
        if e["ev"] == "FileEnd":
            out[(e.get("c"), e["f"])] = e
    return out


def _introduced(pre: str, post: str) -> set[str]:
    a, b = pre.split("\n"), post.split("\n")
    out = set()
    for tag, _i1, _i2, j1, j2 in difflib.SequenceMatcher(a=a, b=b, autojunk=False).get_opcodes():
        if tag in ("replace", "insert"):
            out.update(x for x in b[j1:j2] if x.strip())
    return out


def judge_file(first: dict, second: dict, cid: str, rel: str, initial: str):
    """(flagged, untouched, still) for one (codemod, file) of a run + dry re-run."""
    contents = first.get("contents", {})
    e1 = _file_ends(first).get((cid, rel)) or {}
    pre = contents.get(e1.get("pre"), initial)
    post = contents.get(e1.get("post"), pre)
    touched_old, _ = project.changed_orig_lines(pre, post)
    failed = bool(e1.get("failures"))
    flagged = [loc for res in (e1.get("results") or []) for loc in res["locs"]]
    untouched = [loc for loc in flagged if not failed and not (set(range(loc[0], loc[2] + 1)) & touched_old)]
    final = first["after"].get(rel, initial)
    touched_new, _ = project.changed_orig_lines(final, initial)  # lines of the final text that differ from the initial one
    wrote = _introduced(pre, post)
    final_lines = final.split("\n")
    e2 = _file_ends(second).get((cid, rel)) or {}
    flagged_after = [loc for res in (e2.get("results") or []) for loc in res["locs"]]
    still = [loc for loc in flagged_after
             if any(ln in touched_new and 0 < ln <= len(final_lines) and final_lines[ln - 1] in wrote for ln in range(loc[0], loc[2] + 1))]
    return flagged, untouched, still


def _bound_names(text: str) -> set[str]:
    import ast

    out = set()
    try:
        tree = ast.parse(text)
    except SyntaxError:
        return out
    for n in ast.walk(tree):
        if isinstance(n, ast.Name) and isinstance(n.ctx, ast.Store):
            out.add(n.id)
        elif isinstance(n, (ast.FunctionDef, ast.AsyncFunctionDef, ast.ClassDef)):
            out.add(n.name)
        elif isinstance(n, (ast.Import, ast.ImportFrom)):
            out.update((a.asname or a.name).split(".")[0] for a in n.names)
    return out


def _pair_scenarios(chk: Check, cids: list[str], pins: set) -> list[dict]:
    """Two rule-detected codemods in one invocation over files holding a (pinned) seed of each; the first codemod of
    the queue is one whose fix changes the number of lines."""
    from .. import pyoracle, seeds

    by = seeds.by_codemod()
    pinned = {}
    for cid in cids:
        cands = sorted((s for s in by.get(cid, []) if (cid, s.key) in pins and pyoracle.compiles(s.input)), key=lambda s: (len(s.input), s.key))
        if cands:
            pinned[cid] = cands
    shifting = [cid for cid in sorted(pinned) if any(len(s.expected.split("\n")) != len(s.input.split("\n")) for s in pinned[cid][:3])]
    if not shifting:
        return []
    scenarios = []
    per = chk.pick(2, 6)
    for i, k2 in enumerate(sorted(pinned)):
        for off in range(chk.pick(1, 3)):
            k1 = shifting[(i + off) % len(shifting)]
            if k1 == k2:
                k1 = shifting[(i + off + 1) % len(shifting)]
            if k1 == k2:
                continue
            a_seeds = [s for s in pinned[k1][:3] if len(s.expected.split("\n")) != len(s.input.split("\n"))][:1]
            files, metas = {}, {}
            n = 0
            for sa in a_seeds:
                for sb in pinned[k2][:per]:
                    if _bound_names(sa.input) & _bound_names(sb.input):
                        continue  # the concatenation would re-bind a name: a shape codemods may decline
                    from .. import variations

                    (ha, ba), (hb, bb) = variations._split(sa.input), variations._split(sb.input)

                    def join(h1, b1, h2, b2):
                        # imports of both seeds first (an import in the middle of a file is a shape of its own), then the bodies
                        return "\n".join(h1 + [x for x in h2 if x not in h1] + [""] + b1 + ["", ""] + b2) + "\n"

                    for order, text in (("ab", join(ha, ba, hb, bb)), ("ba", join(hb, bb, ha, ba))):
                        if not pyoracle.compiles(text):
                            continue
                        rel = f"m{n:03d}.py"
                        n += 1
                        files[rel] = text
                        metas[rel] = {"seeds": {k1: sa.key, k2: sb.key}, "order": order}
            if not files:
                continue
            for queue in ((k1, k2), (k2, k1)):
                argv = ["{dir}", "--output", "{out}", "--codemod-include", ",".join(queue)]
                scenarios.append({"id": f"C18-pair{len(scenarios)}-{queue[0].split('/')[-1]}>{queue[1].split('/')[-1]}", "files": files, "_queue": queue, "_metas": metas,
                                  "steps": [{"argv": argv, "keep_events": True, "keep_after": True, "keep_contents": True}, {"argv": argv + ["--dry-run"], "keep_events": True}]})
    return scenarios


def run(chk: Check) -> None:
    cids = rule_detected_codemods()
    vectors = [v for v in progspace.enumerate_vectors(chk, with_args=True)
               if v["mult"] == 1 and v["imp"] == "asis" and v["layout"] != "bom" and v["args"] in ("asis", "same-line-pair", "list-elements", "multiline")]
    scenarios = progspace.build_batches(chk, codemods=set(cids), vectors=vectors, seeds_per_codemod=chk.pick(3, 10), vectors_per_seed=chk.pick(7, 30), with_extra=True,
                                        step_extra={"keep_events": True, "keep_after": True, "keep_contents": True})
    for scn in scenarios:
        argv = scn["steps"][0]["argv"]
        scn["steps"].append({"argv": argv + ["--dry-run"], "keep_events": True})
    from .. import runner, tracecheck

    pins = set(tuple(x) for x in json.loads(PINS.read_text())["seeds"]) if PINS.exists() else set()
    pinning = os.environ.get("VERIF_PIN") == "1"
    pairs = [] if pinning else _pair_scenarios(chk, cids, pins)
    results = runner.run_many(scenarios + pairs)
    base_ok: dict[tuple, bool] = {}
    rows = []
    traces = []
    for scn, r in zip(scenarios, results):
        first, second = r["steps"]
        for rel, meta in scn["_metas"].items():
            flagged, untouched, still = judge_file(first, second, scn["_codemod"], rel, scn["files"][rel])
            key = (scn["_codemod"], meta["seed"])
            if meta["vector"] == progspace.BASE:
                base_ok[key] = bool(flagged) and not untouched and not still
            label = f"{meta['seed'].split('|')[-1]}|{progspace.vec_key(meta['vector'])}"
            rows.append((scn, first, rel, scn["_codemod"], [key], label, f"seed {meta['seed']} varied as {progspace.vec_key(meta['vector'])}", flagged, untouched, still))
            chk.count()
            if flagged:
                chk.nontrivial((scn["_codemod"], meta["seed"], progspace.vec_key(meta["vector"])))
        traces += [first["trace"], second["trace"]]
    for scn, r in zip(pairs, results[len(scenarios):]):
        first, second = r["steps"]
        q = scn["_queue"]
        for rel, meta in scn["_metas"].items():
            for cid in q:
                flagged, untouched, still = judge_file(first, second, cid, rel, scn["files"][rel])
                keys = [(c, meta["seeds"][c]) for c in q]
                label = f"queue={q[0].split('/')[-1]}>{q[1].split('/')[-1]}|{meta['seeds'][q[0]].split('|')[-1]}+{meta['seeds'][q[1]].split('|')[-1]}|{meta['order']}"
                rows.append((scn, first, rel, cid, keys, label, f"in the run of {q[0]} then {q[1]} over a file holding seeds {meta['seeds']} ({meta['order']})", flagged, untouched, still))
                chk.count()
                if flagged:
                    chk.nontrivial((q, cid, rel, meta["order"], tuple(sorted(meta["seeds"].values()))))
        traces += [first["trace"], second["trace"]]
    if pinning:
        ok = sorted(list(k) for k, v in base_ok.items() if v)
        PINS.write_text(json.dumps({"_doc": "(codemod, seed) pairs whose un-varied seed is flagged by the codemod's own rule, rewritten at every flagged location and "
                                    "clean on re-detection (measured at pin time); C18 judges variants of these seeds, others are discarded", "seeds": ok}, indent=1))
        print(f"pinned {len(ok)} seeds")
        pins = set(tuple(x) for x in ok)
    from .. import seeds as seeds_mod

    extra_keys = {s_.key for s_ in seeds_mod.extra()}
    judged = 0
    per_trace_flags: dict[str, dict] = {}
    for scn, first, rel, cid, keys, label, descr, flagged, untouched, still in rows:
        # hand-written probes are judged as they are; variants of vendored seeds only when the seed itself is pinned
        if any(k not in pins and k[1] not in extra_keys for k in keys):
            continue
        judged += 1
        flags = per_trace_flags.setdefault(first["trace"]["id"], {"untouched": False, "still": False})
        if untouched:
            flags["untouched"] = True
            chk.violation(f"C18|{cid}|{label}|flagged-not-rewritten",
                          f"{cid} on {descr}: its rule flags {untouched} but the run neither rewrote those lines nor reported the file failed",
                          {"codemod": cid, "argv": scn["steps"][0]["argv"], "program": scn["files"][rel], "flagged": flagged})
        if still:
            flags["still"] = True
            chk.violation(f"C18|{cid}|{label}|still-flagged",
                          f"{cid} on {descr}: after the run its rule still flags {still} inside the code the run rewrote",
                          {"codemod": cid, "argv": scn["steps"][0]["argv"], "program": scn["files"][rel], "after": first["after"].get(rel)})
    for tr in traces:
        f = per_trace_flags.get(tr["id"])
        if f is not None:
            tr["events"].append({"ev": "Compare", "what": "flagged-location-neither-rewritten-nor-failed", "equal": not f["untouched"]})
            tr["events"].append({"ev": "Compare", "what": "detector-still-flags-rewritten-code", "equal": not f["still"]})
    verdicts, stats = tracecheck.validate(traces)
    for s in stats:
        chk.add_tlc(s)
    chk.coverage["traces_validated_against_impl"] += len(traces)
    chk.coverage["rule_detected_codemods"] = len(cids)
    chk.coverage["programs_judged"] = judged
    chk.coverage["programs_discarded_seed_not_pinned"] = len(rows) - judged
    chk.coverage["two_codemod_runs"] = len(pairs)
    if scenarios:
        chk.sample({"codemod": scenarios[0]["_codemod"], "variants": [progspace.vec_key(m["vector"]) for m in list(scenarios[0]["_metas"].values())[:8]]})
    if pairs:
        chk.sample({"two_codemod_run": pairs[0]["steps"][0]["argv"], "file": list(pairs[0]["files"].values())[0]})
    chk.assumptions += [
        "the detector is the codemod's own semgrep rule as run by codemodder itself (flagged locations are read from the file steps of the trace)",
        "only variants of seeds whose un-varied form is flagged, rewritten and clean at pin time are judged (corpus/c18_pins.json)",
        "multiplicity-2 and local-import variants are left out: they re-bind names, a shape codemods may decline",
        "two-codemod runs concatenate two pinned seeds of different codemods; both orders of the file and of the queue",
    ]


def replay(data: dict) -> int:
    print(json.dumps(data, indent=1)[:4000])
    return 0
