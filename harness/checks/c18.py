"""C18 - a codemod acts on what its own detector reports, and the result is clean.

For every find-and-fix codemod that detects with a semgrep rule of its own: the vendored seeds under the Variants.tla
feature vectors (alias / nesting / layout variants; multiplicity 1, because duplicating a snippet re-binds its names,
which is one of the shapes a codemod may decline).  Each project is run for real and then once more with --dry-run:
the findings the detector handed to each file step are in the trace of the first run (flagged before) and of the second
(flagged after).  Compare events: every location flagged before lies in a region the run rewrote (or the file is
reported failed); nothing flagged after lies in a region the run rewrote.  Trace_Run validates all traces.
"""
from __future__ import annotations

import json
import os
from pathlib import Path

from .. import progspace, project
from ..common import Check

LEVEL = "exploration"
PINS = Path(__file__).resolve().parent.parent.parent / "corpus" / "c18_pins.json"


def rule_detected_codemods() -> list[str]:
    from codemodder.codemods.semgrep import SemgrepRuleDetector
    from codemodder.registry import load_registered_codemods

    return sorted(c.id for c in load_registered_codemods().codemods if c.origin == "pixee" and isinstance(c.detector, SemgrepRuleDetector))


def _raw_file_ends(step: dict) -> dict:
    out = {}
    for e in step.get("events", []):
        if e["ev"] == "FileEnd":
            out.setdefault(e["f"], []).append(e)
    return out


def run(chk: Check) -> None:
    cids = rule_detected_codemods()
    vectors = [v for v in progspace.enumerate_vectors(chk) if v["mult"] == 1 and v["imp"] == "asis" and v["layout"] != "bom"]
    scenarios = progspace.build_batches(chk, codemods=set(cids), vectors=vectors, seeds_per_codemod=chk.pick(3, 10), vectors_per_seed=chk.pick(5, 30),
                                        step_extra={"keep_events": True, "keep_after": True})
    for scn in scenarios:
        argv = scn["steps"][0]["argv"]
        scn["steps"].append({"argv": argv + ["--dry-run"], "keep_events": True})
    from .. import runner, tracecheck

    results = runner.run_many(scenarios)
    pins = set(tuple(x) for x in json.loads(PINS.read_text())["seeds"]) if PINS.exists() else set()
    base_ok: dict[tuple, bool] = {}
    verdict_rows = []
    traces = []
    for scn, r in zip(scenarios, results):
        first, second = r["steps"]
        ev1, ev2 = _raw_file_ends(first), _raw_file_ends(second)
        untouched_total, still_total = [], []
        for rel, meta in scn["_metas"].items():
            before_text = scn["files"][rel]
            after_text = first["after"].get(rel, before_text)
            touched_old, _ = project.changed_orig_lines(before_text, after_text)
            touched_new, _ = project.changed_orig_lines(after_text, before_text)  # lines of the NEW text that differ
            e1 = (ev1.get(rel) or [{}])[-1]
            failed = bool(e1.get("failures"))
            flagged = [loc for res in (e1.get("results") or []) for loc in res["locs"]]
            untouched = [loc for loc in flagged if not failed and not (set(range(loc[0], loc[2] + 1)) & touched_old)]
            e2 = (ev2.get(rel) or [{}])[-1]
            flagged_after = [loc for res in (e2.get("results") or []) for loc in res["locs"]]
            still = [loc for loc in flagged_after if set(range(loc[0], loc[2] + 1)) & touched_new]
            is_base = meta["vector"]["wrap"] == "none" and meta["vector"]["layout"] == "lf"
            key = (scn["_codemod"], meta["seed"])
            if is_base:
                base_ok[key] = bool(flagged) and not untouched and not still
            verdict_rows.append((scn, rel, meta, flagged, untouched, still, key))
            chk.count()
            if flagged:
                chk.nontrivial((scn["_codemod"], meta["seed"], progspace.vec_key(meta["vector"])))
        traces += [first["trace"], second["trace"]]
    if os.environ.get("VERIF_PIN") == "1":
        ok = sorted(list(k) for k, v in base_ok.items() if v)
        PINS.write_text(json.dumps({"_doc": "(codemod, seed) pairs whose un-varied seed is flagged by the codemod's own rule, rewritten at every flagged location and "
                                    "clean on re-detection (measured at pin time); C18 judges variants of these seeds, others are discarded", "seeds": ok}, indent=1))
        print(f"pinned {len(ok)} seeds")
        pins = set(tuple(x) for x in ok)
    judged = 0
    per_trace_flags: dict[str, dict] = {}
    for scn, rel, meta, flagged, untouched, still, key in verdict_rows:
        if key not in pins:
            continue
        judged += 1
        tid = next(s for s in results if s["id"] == scn["id"])["steps"][0]["trace"]["id"]
        flags = per_trace_flags.setdefault(tid, {"untouched": False, "still": False})
        if untouched:
            flags["untouched"] = True
            chk.violation(f"C18|{scn['_codemod']}|{meta['seed'].split('|')[-1]}|{progspace.vec_key(meta['vector'])}|flagged-not-rewritten",
                          f"{scn['_codemod']} on seed {meta['seed']} varied as {progspace.vec_key(meta['vector'])}: its rule flags {untouched} but the run neither rewrote those lines nor reported the file failed",
                          {"codemod": scn["_codemod"], "program": scn["files"][rel], "flagged": flagged})
        if still:
            flags["still"] = True
            chk.violation(f"C18|{scn['_codemod']}|{meta['seed'].split('|')[-1]}|{progspace.vec_key(meta['vector'])}|still-flagged",
                          f"{scn['_codemod']} on seed {meta['seed']} varied as {progspace.vec_key(meta['vector'])}: after the run its rule still flags {still} inside the code the run rewrote",
                          {"codemod": scn["_codemod"], "program": scn["files"][rel]})
    for tr in traces:
        f = per_trace_flags.get(tr["id"])
        if f is not None:
            tr["events"].append({"ev": "Compare", "what": "flagged-location-neither-rewritten-nor-failed", "equal": not f["untouched"]})
            tr["events"].append({"ev": "Compare", "what": "detector-still-flags-rewritten-code", "equal": not f["still"]})
    verdicts, stats = tracecheck.validate(traces)
    for s in stats:
        chk.add_tlc(s)
    chk.coverage["traces_validated_against_impl"] += len(traces)
    chk.coverage["rule_detected_codemods"] = len(cids)
    chk.coverage["programs_judged"] = judged
    chk.coverage["programs_discarded_seed_not_pinned"] = len(verdict_rows) - judged
    if scenarios:
        chk.sample({"codemod": scenarios[0]["_codemod"], "variants": [progspace.vec_key(m["vector"]) for m in list(scenarios[0]["_metas"].values())[:8]]})
    chk.assumptions += [
        "the detector is the codemod's own semgrep rule as run by codemodder itself (flagged locations are read from the file steps of the trace)",
        "only variants of seeds whose un-varied form is flagged, rewritten and clean at pin time are judged (corpus/c18_pins.json)",
        "multiplicity-2 and local-import variants are left out: they re-bind names, a shape codemods may decline",
    ]


def replay(data: dict) -> int:
    print(json.dumps(data, indent=1)[:4000])
    return 0
