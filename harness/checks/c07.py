"""C07 - re-running a codemod on its own output changes nothing (fixed point).

For every codemod: the vendored seeds under the Variants.tla feature vectors, argument-list variations included (find-and-fix) or with the repository's
own findings (SAST, result files kept); each project is run twice with the same arguments.  Trace_Run validates both
traces; on the second one the expectation `frozen` holds: no FileEnd reports a change, no file moves, and the final
tree equals the tree after the first run.
"""
from __future__ import annotations

import json

from .. import progspace
from ..common import Check

LEVEL = "exploration"
RULE = ('cases = (codemod, seed, feature vector) programs run twice; non-trivial when the first run rewrote the file; distinct = distinct (codemod, seed, vector)')
CLAUSES = ("FileEnd:second-run-reports-a-change", "FileEnd:second-run-modified-a-file")


def run(chk: Check) -> None:
    vectors = progspace.enumerate_vectors(chk, with_args=True)
    scenarios = progspace.build_batches(chk, with_extra=True, vectors=vectors, seeds_per_codemod=chk.pick(3, 10), vectors_per_seed=chk.pick(7, 40), second_run=True)
    scenarios += progspace.build_sast(chk, max_per_codemod=chk.pick(2, 6), second_run=True)
    results, verdicts = progspace.run_batches(chk, scenarios)
    for scn, r in zip(scenarios, results):
        first, second = r["steps"]
        ev1 = progspace.per_file_events(first)
        ev2 = progspace.per_file_events(second)
        for rel, meta in scn["_metas"].items():
            chk.count()
            if any(e["o"] == "changed" for e in ev1.get(rel, [])):
                chk.nontrivial((scn["_codemod"], meta["seed"], progspace.vec_key(meta["vector"])))
        v = [c for c in verdicts[second["trace"]["id"]] if c.startswith(CLAUSES)]
        if not v and not second["changed_files"]:
            continue
        for rel, meta in scn["_metas"].items():
            again = [e for e in ev2.get(rel, []) if e["o"] == "changed"] or (rel in second["changed_files"])
            if again:
                v_ = meta["vector"]
                chk.violation(f"C07|{scn['_codemod']}|x{v_['mult']}|{meta['seed'].split('|')[-1]}|{v_['wrap']}/{v_['layout']}/{v_['imp']}" + (f"/{v_['args']}" if v_.get("args", "asis") != "asis" else ""),
                              f"{scn['_codemod']} on seed {meta['seed']} varied as {progspace.vec_key(meta['vector'])}: the second run changes the file again",
                              {"codemod": scn["_codemod"], "program": scn["files"][rel], "vector": meta["vector"]})
    chk.sample({"codemod": scenarios[0]["_codemod"], "variants": [progspace.vec_key(m["vector"]) for m in list(scenarios[0]["_metas"].values())[:8]]})
    chk.assumptions += ["programs outside seeds x generic variations are not covered"]


def replay(data: dict) -> int:
    print(json.dumps(data, indent=1)[:4000])
    return 0
