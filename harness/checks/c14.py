"""C14 - adding a dependency keeps the manifest valid, complete and duplicate-free.

Deps.tla enumerates every assignment of abstract states (none / absent / same / spelled / unwritable) to the four
manifest kinds and says which manifests may change, whether exactly one must, and whether the report must admit
failure.  Each abstract project is made concrete with texts from a per-format corpus (comments, markers, extras, -r
includes, inline and multi-line lists, poetry tables, CRLF, missing final newline, empty file) and run with a
dependency-adding codemod; Trace_Run judges the Deps step (chosen manifest acceptable, at most one touched, diff =
change) with the manifest re-parsed by independent parsers (still parses, every requirement and comment kept, the
needed requirement added exactly once).  A second run on a restored source with the updated manifests adds nothing.
"""
from __future__ import annotations

import json

from .. import manifests, runner, seeds, space, tlc, tracecheck
from ..common import Check

LEVEL = "model_checking"
RULE = ('cases = Deps.tla manifest states x codemods needing a package x manifest texts, run once and twice; every case is non-trivial (a dependency is wanted); distinct = distinct (state history, codemod, manifest text)')

CODEMODS = [
    {"id": "pixee:python/use-defusedxml", "pkg": "defusedxml", "alt": "DefusedXML", "src": space.PROGRAMS["xml"]},
    {"id": "pixee:python/harden-pickle-load", "pkg": "fickling", "alt": "Fickling", "src": space.PROGRAMS["pickle"]},
    {"id": "pixee:python/url-sandbox", "pkg": "security", "alt": "Security", "src": space.PROGRAMS["requests"]},
    {"id": "pixee:python/sandbox-process-creation", "pkg": "security", "alt": "SECURITY", "src": space.PROGRAMS["subprocess"]},
    # two codemods of one run that need the same package: it must be declared once
    {"id": "pixee:python/url-sandbox,pixee:python/sandbox-process-creation", "pkg": "security", "alt": "Security",
     "src": space.PROGRAMS["both"]},
]


def _flask_seed():
    for s in seeds.load():
        if s.codemod == "pixee:python/flask-enable-csrf-protection" and s.changes and not s.files:
            return {"id": s.codemod, "pkg": "flask-wtf", "alt": "Flask_WTF", "src": s.input}
    return None


def run(chk: Check) -> None:
    res = tlc.run_tlc(tlc.SPEC_DIR, "Deps", "Deps.cfg", dump=True)
    if res.violated:
        raise tlc.TlcFailure(f"Deps lemma violated {res.violated[0][:2]}")
    chk.add_tlc(res)
    abstract = [(st["m"], st["exp"]) for st in res.dump if st["st"] == "done"]
    abstract.sort(key=lambda a: json.dumps(a[0], sort_keys=True))
    codemods = list(CODEMODS)
    fl = _flask_seed()
    if fl:
        codemods.append(fl)
    # concretize: states for which the corpus has no text (requirements.txt cannot be unwritable) are skipped
    usable = [(m, e) for m, e in abstract if all(s == "none" or manifests.CORPUS[k][s] for k, s in m.items())]
    chk.rng.shuffle(usable)
    n = chk.pick(150, 1800)
    # make sure single-manifest projects of every kind/state/text are in (they exercise each writer on each text)
    singles = []
    for k in manifests.KINDS:
        for s in ("absent", "same", "spelled", "unwritable"):
            for ti in range(len(manifests.CORPUS[k][s])):
                singles.append(({kk: (s if kk == k else "none") for kk in manifests.KINDS}, ti))
    scenarios = []

    def add(m, exp, cm, text_index, sid):
        files = {"app.py": cm["src"]}
        for k, s in m.items():
            if s == "none":
                continue
            texts = manifests.CORPUS[k][s]
            files[k] = texts[text_index % len(texts)].replace("{PKG}", cm["pkg"]).replace("{ALT}", cm["alt"])
        if "requirements.txt" in files and "-r base.txt" in files["requirements.txt"]:
            files["base.txt"] = "six\n"
        if "," in cm["id"] and "requirements.txt" in files:
            # a second name of the same manifest inside the project: still one manifest, the package is declared once
            files["docs/requirements.txt"] = {"symlink": "../requirements.txt"}
        argv = ["{dir}", "--output", "{out}", "--codemod-include", cm["id"]]
        cand = sorted(exp["cand"])
        scenarios.append({
            "id": sid, "files": files,
            "steps": [
                {"argv": argv, "expect": {"cand": cand, "mustOne": bool(exp["mustOne"])}, "keep_after": True},
                # the source restored, the manifests as the first run left them: the package is declared now
                {"argv": argv, "overlay": {"app.py": cm["src"]}, "expect": {"cand": [], "mustOne": False}},
            ],
            "_meta": {"states": m, "codemod": cm["id"], "text": text_index, "mustSayFailed": bool(exp["mustSayFailed"]), "cand": cand, "mustOne": bool(exp["mustOne"])},
        })

    by_states = {json.dumps(m, sort_keys=True): e for m, e in abstract}
    for i, (m, ti) in enumerate(singles):
        cm = codemods[i % 2]  # detector-less ones: cheap
        add(m, by_states[json.dumps(m, sort_keys=True)], cm, ti, f"C14-s{i}")
    for i, (m, e) in enumerate(usable[:n]):
        cm = codemods[4] if i % 7 == 3 else (codemods[i % len(codemods)] if i % 4 == 0 else codemods[i % 2])
        add(m, e, cm, chk.rng.randrange(0, 6), f"C14-{i}")
    results = runner.run_many(scenarios)
    traces = []
    for scn, r in zip(scenarios, results):
        s1 = r["steps"][1]
        s1["trace"]["events"].append({"ev": "Compare", "what": "second-run-with-the-package-declared-changed-a-manifest",
                                      "equal": not [f for f in s1["changed_files"] if f != "app.py"]})
        traces += [st["trace"] for st in r["steps"]]
    verdicts, stats = tracecheck.validate(traces)
    for s in stats:
        chk.add_tlc(s)
    chk.coverage["traces_validated_against_impl"] += len(traces)
    for scn, r in zip(scenarios, results):
        m = scn["_meta"]
        chk.count()
        st0, st1 = r["steps"]
        bad = []
        for st in (st0, st1):
            bad += [c for c in verdicts[st["trace"]["id"]] if c.startswith(("Deps:", "Compare:", "RunEnd:", "CodemodEnd:", "inv:C03", "ReportBuilt:"))]
        wanted = any(e["ev"] == "Deps" and e["wanted"] for e in st0["trace"]["events"])
        if not wanted:
            chk.coverage["discarded_no_dependency_wanted"] = chk.coverage.get("discarded_no_dependency_wanted", 0) + 1
            continue
        chk.nontrivial((json.dumps(m["states"], sort_keys=True), m["codemod"], m["text"]))
        if m["mustSayFailed"] and st0["report"]:
            desc = st0["report"]["results"][0]["description"]
            if "unable to automatically add" not in desc:
                bad.append("report-does-not-say-the-dependency-could-not-be-added")
        if st0["exit"] != 0:
            bad.append(f"exit-{st0['exit']}")
        if bad:
            states = ",".join(f"{k.split('.')[0][:5]}={v}" for k, v in sorted(m["states"].items()) if v != "none")
            first_changed = sorted(f for f in st0["changed_files"] if f != "app.py")
            second_changed = sorted(f for f in st1["changed_files"] if f != "app.py")

            def text_of(k):
                stt = m["states"].get(k, "none")
                return m["text"] % len(manifests.CORPUS[k][stt]) if stt != "none" and manifests.CORPUS[k][stt] else -1

            bad0 = sorted({c for c in verdicts[st0["trace"]["id"]] if c.startswith(("Deps:", "RunEnd:", "CodemodEnd:", "inv:C03", "ReportBuilt:"))} | {b for b in bad if b.startswith(("report-", "exit-"))})
            bad1 = sorted({c for c in verdicts[st1["trace"]["id"]] if c.startswith(("Deps:", "Compare:", "RunEnd:", "CodemodEnd:", "inv:C03", "ReportBuilt:"))})
            groups = []
            if bad0:
                tgt = first_changed[0] if first_changed else next((k for k in manifests.KINDS if m["states"][k] != "none"), "-")
                groups.append((f"C14|first|{tgt}={m['states'].get(tgt, '-')}|text={text_of(tgt) if tgt in manifests.CORPUS else -1}|{'+'.join(b[:60] for b in bad0)}", bad0))
            if bad1:
                if second_changed and set(second_changed) <= set(first_changed):
                    k = second_changed[0]
                    groups.append((f"C14|second|same-manifest-again|{k}|text={text_of(k)}", bad1))
                elif second_changed:
                    groups.append(("C14|second|another-manifest", bad1))
                else:
                    groups.append((f"C14|second|{'+'.join(b[:60] for b in bad1)}", bad1))
            for sig, why in groups:
                chk.violation(
                    sig,
                    f"{m['codemod']} with manifests {states} (text variant {m['text']}): {why}; manifests changed by the first run: {first_changed}, by the second: {second_changed}; "
                    f"{'; '.join((st0['notes'] + st1['notes'])[:4])}; {st0['stderr'][-300:]}",
                    {"files": scn["files"], "argv": scn["steps"][0]["argv"], "meta": m, "verdict": why, "after_first_run": {k: v for k, v in (st0.get("after") or {}).items() if k != "app.py"}},
                )
    # ---- manifests that are not UTF-8 text (a requirements file as PowerShell's `pip freeze >` writes it, a legacy
    # code page in a comment): judged on bytes - untouched, or still the same document in ITS encoding with every
    # line kept and the requirement added once
    import base64

    enc_cases = [
        ("utf16-lf", "requirements.txt", "requests==2.31.0\nflask>=2.0\n".encode("utf-16"), "utf-16"),
        ("utf16-crlf", "requirements.txt", "requests==2.31.0\r\nflask>=2.0\r\n".encode("utf-16"), "utf-16"),
        ("latin1-comment", "requirements.txt", "# d\xe9pendances\nrequests==2.31.0\n".encode("latin-1"), "latin-1"),
        ("utf8-bom", "requirements.txt", b"\xef\xbb\xbfrequests==2.31.0\nflask>=2.0\n", "utf-8-sig"),
    ]
    cm = CODEMODS[0]
    enc_scn = [{"id": f"C14-enc-{name}", "files": {"app.py": cm["src"], rel: {"b64": base64.b64encode(data).decode()}},
                "steps": [{"argv": ["{dir}", "--output", "{out}", "--codemod-include", cm["id"]], "keep_after": True}], "_enc": (name, rel, data, enc)} for name, rel, data, enc in enc_cases]
    for scn, r in zip(enc_scn, runner.run_many(enc_scn)):
        name, rel, data, enc = scn["_enc"]
        st = r["steps"][0]
        chk.count()
        chk.nontrivial(("encoding", name))
        problems = []
        if st["exit"] != 0:
            problems.append(f"exit {st['exit']}")
        if rel in st["changed_files"]:
            # what is on disk now?  (the runner keeps only hashes: read the diff of the report instead)
            cs = [c for res_ in (st["report"] or {}).get("results", []) for c in res_["changeset"] if c["path"] == rel]
            added = [ln[1:] for c in cs for ln in c["diff"].split("\n") if ln.startswith("+") and not ln.startswith("+++")]
            removed = [ln[1:] for c in cs for ln in c["diff"].split("\n") if ln.startswith("-") and not ln.startswith("---")]
            old_lines = data.decode(enc).splitlines()
            if any(r_.strip() and r_.strip() in [o.strip() for o in old_lines] and r_.strip() not in [a.strip() for a in added] for r_ in removed):
                problems.append("a declared requirement or comment was removed")
            if "\ufffd" in "".join(added) or "\x00" in "".join(added + removed):
                problems.append("the manifest was rewritten with replacement characters / NUL bytes (decoded in the wrong encoding)")
            if not cs:
                problems.append("manifest changed without a changeset")
            # the bytes now on disk: still the same kind of document, every old line kept
            now = (st["after"].get(rel) or "").encode("utf-8", "surrogateescape")
            try:
                new_lines = [ln.strip() for ln in now.decode(enc).splitlines()]
                lost = [o for o in old_lines if o.strip() and o.strip() not in new_lines]
                if lost:
                    problems.append(f"lines lost from the manifest read in its own encoding ({enc}): {lost[:2]}")
                if sum(1 for ln in new_lines if ln.lower().startswith(cm["pkg"].lower())) != 1:
                    problems.append(f"the requirement is not there exactly once when the manifest is read in its own encoding ({enc})")
            except UnicodeError:
                problems.append(f"the manifest no longer decodes in its own encoding ({enc})")
        if problems:
            chk.violation(f"C14|encoding|{name}|{'+'.join(p_.split(' ')[0] for p_ in problems)}", f"{cm['id']} with a {name} requirements.txt: {problems}",
                          {"argv": scn["steps"][0]["argv"], "manifest_bytes": data.hex()})
    chk.sample({"abstract_project": scenarios[-1]["_meta"], "files": {k: v[:120] for k, v in scenarios[-1]["files"].items()}})
    chk.assumptions += [
        "which manifest is updated is not prescribed: any single manifest that can take the requirement and does not declare it",
        "names are compared PEP 503-normalised; the needed requirement is 'declared' by any version of the same normalised name",
        "build back-ends other than the four formats are out of scope",
    ]


def replay(data: dict) -> int:
    print(json.dumps(data, indent=1)[:4000])
    return 0
