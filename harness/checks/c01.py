"""C01 - every file codemodder rewrites is still syntactically valid Python.

Variants.tla enumerates the feature vectors (wrapping / nesting, layout and line-ending convention, multiplicity,
import placement); for every registered find-and-fix codemod the vendored seeds are varied accordingly (one project per
codemod, one file per variant), SAST codemods run on their own seeds with the repository's findings, and sequences of
codemods are covered through ProgramSpace.  The observation "compiled (or at least parsed) before the rewrite =>
compiles (parses) after" is computed by CPython for every FileEnd event and monitored by Trace_Run on every trace.
"""
from __future__ import annotations

import json

from .. import progspace, runspace
from ..common import Check

LEVEL = "exploration"
RULE = ('cases = (codemod, vendored seed, Variants.tla feature vector) programs plus ProgramSpace run vectors; a case is non-trivial when the codemod actually rewrote the file (for run vectors: the vector itself); distinct = distinct (codemod, seed, vector) / run-vector keys')
CLAUSE = "FileEnd:rewritten-file-no-longer-parses"


def judge(chk: Check, scenarios, results, verdicts, clause: str, pid: str, what: str):
    for scn, r in zip(scenarios, results):
        st = r["steps"][0]
        evs = progspace.per_file_events(st)
        for rel, meta in scn["_metas"].items():
            chk.count()
            if any(e["o"] == "changed" for e in evs.get(rel, [])):
                chk.nontrivial((scn["_codemod"], meta["seed"], progspace.vec_key(meta["vector"])))
        if clause not in verdicts[st["trace"]["id"]]:
            continue
        field = {"FileEnd:rewritten-file-no-longer-parses": "parsesOk", "FileEnd:rewrite-introduced-an-unresolved-name": "namesOk",
                 "FileEnd:rewrite-changed-more-than-the-documented-edit": "bagOk"}[clause]
        for rel, meta in scn["_metas"].items():
            bad = [e for e in evs.get(rel, []) if not e.get(field, True)]
            if bad:
                note = next((n for n in st["notes"] if n.startswith(rel + ":")), "")
                chk.violation(f"{pid}|{scn['_codemod']}|{meta['seed'].split('|')[-1]}|{progspace.vec_key(meta['vector'])}",
                              f"{scn['_codemod']} on seed {meta['seed']} varied as {progspace.vec_key(meta['vector'])}: {what}; {note}",
                              {"codemod": scn["_codemod"], "program": scn["files"][rel], "vector": meta["vector"], "note": note})


def run(chk: Check) -> None:
    vectors = progspace.enumerate_vectors(chk, with_args=True)
    scenarios = progspace.build_batches(chk, with_extra=True, vectors=vectors, seeds_per_codemod=chk.pick(2, 6), vectors_per_seed=chk.pick(9, 50))
    scenarios += progspace.build_line_filter_batches(chk, multi_statement_only=chk.quick)
    scenarios += progspace.build_sast(chk, max_per_codemod=chk.pick(1, 4))
    results, verdicts = progspace.run_batches(chk, scenarios)
    judge(chk, scenarios, results, verdicts, CLAUSE, "C01", "the rewritten file no longer compiles / parses")
    # sequences of codemods in one run (ProgramSpace)
    vs = [v for v in runspace.enumerate_vectors(chk) if len(v["queue"]) >= 2 and not v["dryRun"] and v["manifest"] == "none"]
    sample = runspace.sample_covering(chk, vs, chk.pick(25, 400), dims=("program", "layout"))
    seq = []
    for i, v in enumerate(sample):
        sc = runspace.scenario_for(v, f"C01-seq-{i}")
        sc["steps"][0]["observe"] = True
        seq.append(sc)
    for scn, res, vd in runspace.run_and_validate(chk, seq):
        chk.count()
        chk.nontrivial(("seq", runspace.vkey(scn["_v"])))
        st = res["steps"][0]
        if CLAUSE in vd[st["trace"]["id"]]:
            chk.violation(f"C01|seq|{runspace.vkey(scn['_v'])}", f"sequence {runspace.vkey(scn['_v'])}: a rewritten file no longer parses; {st['notes'][:2]}",
                          {"vector": scn["_v"], "files": scn["files"]})
    chk.sample({"codemod": scenarios[0]["_codemod"], "variants": [progspace.vec_key(m["vector"]) for m in list(scenarios[0]["_metas"].values())[:8]]})
    chk.assumptions += ["the predicate 'parses' is CPython's compile()/ast.parse(), trusted", "programs outside seeds x generic variations are not covered"]


def replay(data: dict) -> int:
    print(json.dumps(data, indent=1)[:4000])
    return 0
