"""C13 - line-level include/exclude is honoured and change entries name the edited line.

For every find-and-fix codemod with a single-line seed (vendored corpus): a program with three copies of the site at
chosen lines; batch projects hold one file per (subset of sites excluded | subset included | combined) x spelling
(relative, globbed, absolute `path:line`), so one run decides ~25 variants.  Gen_Lines.tla computes, from the real
pattern lists of each run, which sites of each file are permitted (reference: PathFilter!Permitted / LinesOfAbs);
Trace_Run judges the recorded run: only permitted sites rewritten, every permitted site rewritten, change entries
name exactly the rewritten lines.
"""
from __future__ import annotations

import itertools
import json
import os
import warnings
from pathlib import Path

from .. import gen, runner, seeds, tracecheck
from ..common import Check
from ..tlaval import cps

LEVEL = "model_checking"
RULE = ('cases = Gen_Lines.tla batches: every subset of candidate sites as include / exclude lines in relative, globbed and absolute spelling; non-trivial when at least one line pattern applies to the file; distinct = distinct (codemod, kind, E, I, spelling, sites)')
PINS = Path(__file__).resolve().parent.parent.parent / "corpus" / "c13_pins.json"
ABSROOT = "/T/"  # stands for the target directory in the specification; the run uses the real one

SPELL = ("rel", "glob", "abs", "mixed")  # mixed: the lines of one file are named by patterns of different spellings


def _subsets(xs):
    for n in range(1, len(xs) + 1):
        yield from itertools.combinations(xs, n)


def _pattern(rel: str, line: int, sp: str, real: bool) -> str:
    if sp == "rel":
        return f"{rel}:{line}"
    if sp == "glob":
        return f"*{rel.split('/')[-1]}:{line}"
    return (("{dir}/" if real else ABSROOT) + rel) + f":{line}"


def _layouts(first: int):
    return [[first, first + 1, first + 2], [first, first + 2, first + 5], [first + 1, first + 3, first + 4]]


def build_runs(cid: str, seed, site, quick: bool, rng, uid: int):
    """Three batch runs (exclude-only, include-only, combined) for one codemod."""
    first = site[0]
    progs = []
    for lay in _layouts(first):
        r = seeds.multi_site_program(seed, site, lay, mark=True)
        if r:
            progs.append(r)
    if not progs:
        return []
    runs = []
    for kind in ("exc", "inc", "both"):
        files = {}
        metas = {}
        inc, exc = [], []
        n = 0

        def add(E, I, sp):
            nonlocal n
            text, lines = progs[n % len(progs)]
            rel = f"pkg/m{uid}{kind[0]}{n:02d}.py" if n % 2 else f"m{uid}{kind[0]}{n:02d}.py"  # unique over all runs
            n += 1
            files[rel] = text + ("\n" if not text.endswith("\n") else "")
            e_lines = [lines[i] for i in E]
            i_lines = [lines[i] for i in I]
            metas[rel] = {"sites": lines, "E": e_lines, "I": i_lines, "spelling": sp, "kind": kind}
            cyc = ("abs", "rel", "glob")
            for j, ln in enumerate(e_lines):
                exc.append((rel, ln, cyc[j % 3] if sp == "mixed" else sp))
            # an include pattern also selects the file, by its path relative to the target (C05): the absolute
            # spelling is therefore only generated for exclude patterns
            isp = "rel" if sp == "abs" else sp
            icyc = ("glob", "rel")
            for j, ln in enumerate(i_lines):
                inc.append((rel, ln, icyc[j % 2] if sp == "mixed" else isp))
            if sp == "mixed":
                isp = "rel"
            if kind != "exc" and not i_lines:
                inc.append((rel, None, isp))

        idx = (0, 1, 2)
        variants = []
        if kind == "exc":
            variants = [(E, (), sp) for E in _subsets(idx) for sp in SPELL]
            variants.append(((), (), "rel"))  # control: nothing filtered
        elif kind == "inc":
            variants = [((), I, sp) for I in _subsets(idx) for sp in SPELL]
            variants.append(((), (), "rel"))
        else:
            pairs = [(E, I) for E in _subsets(idx) for I in _subsets(idx) if len(E) + len(I) <= 3]
            variants = [(E, I, sp) for (E, I) in pairs for sp in SPELL]
            variants.append(((), (), "rel"))
        if quick and len(variants) > 12:
            ctl = [v for v in variants if not v[0] and not v[1]]
            rest = [v for v in variants if v[0] or v[1]]
            rng.shuffle(rest)
            variants = rest[:11] + ctl
        for E, I, sp in variants:
            add(E, I, sp)
        if kind == "inc":
            # a file that ends, without a final newline, in its last site; only that line is included
            text0, lines0 = progs[0]
            cut = "\n".join(text0.split("\n")[: lines0[-1]])
            if seeds.compiles(cut):
                rel = f"nonl{uid}.py"
                files[rel] = cut  # no final newline
                metas[rel] = {"sites": lines0, "E": [], "I": [lines0[-1]], "spelling": "rel-nofinalnl", "kind": kind}
                inc.append((rel, lines0[-1], "rel"))
        # the same file name at two levels: a relative pattern names the path from the target, so it concerns the
        # top-level file only; and a glob that has to cross several directories
        text, lines = progs[0]
        t1, t2, deep = f"twin{uid}{kind[0]}.py", f"pkg/twin{uid}{kind[0]}.py", f"src/app/core/deep{uid}{kind[0]}.py"
        for rel in (t1, t2, deep):
            files[rel] = text + ("\n" if not text.endswith("\n") else "")
        if kind == "exc":
            metas[t1] = {"sites": lines, "E": [lines[0]], "I": [], "spelling": "rel-twin", "kind": kind}
            metas[t2] = {"sites": lines, "E": [], "I": [], "spelling": "rel-twin-other-level", "kind": kind}
            metas[deep] = {"sites": lines, "E": [lines[1]], "I": [], "spelling": "deep-glob", "kind": kind}
            exc.append((t1, lines[0], "rel"))
            exc.append((f"src/**/deep{uid}{kind[0]}.py", lines[1], "rel"))
        else:
            metas[t1] = {"sites": lines, "E": [], "I": [lines[0]], "spelling": "rel-twin", "kind": kind}
            metas[t2] = {"sites": lines, "E": [], "I": [lines[2]], "spelling": "rel-twin-other-level", "kind": kind}
            metas[deep] = {"sites": lines, "E": [], "I": [lines[1]], "spelling": "deep-glob", "kind": kind}
            inc.append((t1, lines[0], "rel"))
            inc.append((t2, lines[2], "rel"))
            inc.append((f"src/**/deep{uid}{kind[0]}.py", lines[1], "rel"))

        def render(lst, real):
            return [(rel if ln is None else _pattern(rel, ln, sp, real)) for rel, ln, sp in lst]

        runs.append({"codemod": cid, "kind": kind, "files": files, "metas": metas,
                     "inc_real": render(inc, True), "exc_real": render(exc, True),
                     "inc_spec": render(inc, False), "exc_spec": render(exc, False)})
    return runs


def run(chk: Check) -> None:
    warnings.simplefilter("ignore")
    best = seeds.best_single_line_seeds(max_per_codemod=1)
    cids = sorted(c for c in best if c.startswith("pixee:"))
    all_runs = []
    for uid, cid in enumerate(cids):
        seed, site = best[cid][0]
        all_runs += build_runs(cid, seed, site, chk.quick, chk.rng, uid)
    # ---- reference outcome for every file of every run: one TLC invocation per chunk of runs
    expected: dict[tuple[int, str], list[int]] = {}
    for base in range(0, len(all_runs), 12):
        part = all_runs[base : base + 12]
        files_tla, owners = [], []
        inc_all, exc_all = [], []
        # several runs per TLC call: file names are unique over all runs, so no pattern of one run matches a file of another
        for ri, r in enumerate(part):
            for rel, m in r["metas"].items():
                files_tla.append({"rel": cps(rel), "sites": m["sites"]})
                owners.append((base + ri, rel))
            inc_all += [cps(p) for p in r["inc_spec"]]
            exc_all += [cps(p) for p in r["exc_spec"]]
        res = gen.run_generator("Gen_Lines", "LineData", {"Files": files_tla, "Inc": inc_all, "Exc": exc_all, "AbsRoot": cps(ABSROOT)})
        chk.add_tlc(res)
        for st in res.dump:
            if st["st"] == "done":
                expected[owners[st["k"] - 1]] = sorted(st["exp"])
    scenarios = []
    for ri, r in enumerate(all_runs):
        # every other run names the target in a non-canonical way (a `..` component); absolute patterns are spelled alike
        target = "{dir}" if ri % 2 == 0 else "{dir}/../target"
        argv = [target, "--output", "{out}", "--codemod-include", r["codemod"]]
        if r["inc_real"]:
            argv += ["--path-include", ",".join(p_.replace("{dir}", target) for p_ in r["inc_real"])]
        if r["exc_real"]:
            argv += ["--path-exclude", ",".join(p_.replace("{dir}", target) for p_ in r["exc_real"])]
        exp_sites = {rel: expected[(ri, rel)] for rel in r["metas"]}
        scenarios.append({
            "id": f"C13-{ri}", "files": r["files"],
            "steps": [{"argv": argv, "site_lines": {rel: m["sites"] for rel, m in r["metas"].items()},
                       "expect": {"siteMay": exp_sites, "siteMust": exp_sites}, "keep_events": False}],
            "_run": r,
        })
    results = runner.run_many(scenarios)
    traces = []
    usable = []
    control_ok: dict[str, list[bool]] = {}
    pins = set(json.loads(PINS.read_text())["codemods"]) if PINS.exists() else set()
    for scn, res in zip(scenarios, results):
        st = res["steps"][0]
        r = scn["_run"]
        tok = st["ftok"]
        rev = {v: k for k, v in tok.items()}
        changed_sites = {}
        for e in st["trace"]["events"]:
            if e["ev"] == "FileEnd":
                changed_sites.setdefault(rev[e["f"]], set()).update(e["sites"])
        st["_changed_sites"] = changed_sites
        # scenario validation: in the control file (no pattern) every site must be rewritten and reported on its own
        # line - i.e. the codemod's construct really is the single line.  The codemods for which this held when the
        # corpus was pinned (corpus/c13_pins.json) must still satisfy it; others are discarded, not judged.
        ctl = [rel for rel, m in r["metas"].items() if not m["E"] and not m["I"]]
        events_ = {e["f"]: e for e in st["trace"]["events"] if e["ev"] == "FileEnd"}

        def ctl_ok(c):
            ev = events_.get(tok.get(c))
            return ev is not None and sorted(changed_sites.get(c, ())) == r["metas"][c]["sites"] and sorted(ev["clines"]) == r["metas"][c]["sites"]

        good = bool(ctl) and all(ctl_ok(c) for c in ctl)
        control_ok.setdefault(r["codemod"], []).append(good)
        st["_control_ok"] = good
        usable.append((scn, st))
    if os.environ.get("VERIF_PIN") == "1":
        ok = sorted(c for c, v in control_ok.items() if len(v) == 3 and all(v))
        PINS.write_text(json.dumps({"_doc": "codemods whose un-filtered control copies are rewritten at every site with one change entry per site line "
                                    "(measured on the tree at pin time); C13 judges these, others are discarded", "codemods": ok}, indent=1))
        print(f"pinned {len(ok)} codemods")
    applicable = {c for c, v in control_ok.items() if len(v) == 3 and all(v)} | pins
    for scn, st in usable:
        r = scn["_run"]
        if r["codemod"] in pins and not st["_control_ok"]:
            chk.violation(f"C13|{r['codemod']}|control|{r['kind']}", f"{r['codemod']}: un-filtered copy is no longer rewritten at every site with a change entry on the site's line ({r['kind']} run)",
                          {"argv": scn["steps"][0]["argv"]})
    usable = [(scn, st) for scn, st in usable if scn["_run"]["codemod"] in applicable and st["_control_ok"]]
    chk.coverage["codemods_judged"] = len({scn["_run"]["codemod"] for scn, _ in usable})
    chk.coverage["codemods_discarded"] = sorted(set(control_ok) - applicable)
    traces = [st["trace"] for _, st in usable]
    verdicts, stats = tracecheck.validate(traces)
    for s in stats:
        chk.add_tlc(s)
    chk.coverage["traces_validated_against_impl"] += len(traces)
    sampled = False
    for scn, st in usable:
        r = scn["_run"]
        v = [c for c in verdicts[st["trace"]["id"]] if c.startswith(("FileEnd:site", "FileEnd:change-entry", "FileEnd:rewritten-line", "RunEnd:permitted-site"))]
        exp_sites = scn["steps"][0]["expect"]["siteMay"]
        events = {e["f"]: e for e in st["trace"]["events"] if e["ev"] == "FileEnd"}
        for rel, m in r["metas"].items():
            chk.count()
            if m["E"] or m["I"]:
                chk.nontrivial((r["codemod"], r["kind"], tuple(m["E"]), tuple(m["I"]), m["spelling"], tuple(m["sites"])))
            if not sampled and m["E"] and m["I"]:
                chk.sample({"codemod": r["codemod"], "file": rel, "sites": m["sites"], "excluded": m["E"], "included": m["I"],
                            "spelling": m["spelling"], "permitted": exp_sites[rel], "rewritten": sorted(st["_changed_sites"].get(rel, ()))})
                sampled = True
        if not v:
            continue
        # attribute the run's verdict to files
        for rel, m in r["metas"].items():
            got = sorted(st["_changed_sites"].get(rel, ()))
            want = exp_sites[rel]
            ev = events.get(st["ftok"].get(rel))
            clines = sorted(ev["clines"]) if ev else []
            problems = []
            if got != want:
                problems.append("rewritten-sites")
            if got and clines != got:
                problems.append("change-entry-lines")
            if not problems:
                continue
            all_sites = m["sites"]
            if m["E"] and m["I"] and got == [s for s in all_sites if s not in m["E"]]:
                sig = "C13|combined-lists|include-list-ignored-when-exclude-list-given"
                what = "with both --path-include and --path-exclude line patterns for a file the include lines are ignored"
            else:
                sig = f"C13|{r['codemod']}|{r['kind']}|{m['spelling']}|E={m['E']}|I={m['I']}|sites={all_sites}|{'+'.join(problems)}"
                what = (f"{r['codemod']} on {rel}: sites {all_sites}, excluded {m['E']}, included {m['I']} ({m['spelling']} spelling): "
                        f"rewritten {got}, permitted {want}, change-entry lines {clines}")
            chk.violation(sig, what, {"argv": scn["steps"][0]["argv"], "file": rel, "text": r["files"][rel], "meta": m,
                                      "rewritten": got, "permitted": want, "change_lines": clines, "verdict": v})
    chk.coverage["codemods"] = len(cids)
    chk.assumptions += [
        "single-line sites only (the property restricts itself to edits confined to one physical line)",
        "a change entry may number its line on either side of the diff",
        "seeds whose un-filtered control copy is not rewritten at all three sites are discarded, not judged",
    ]


def replay(data: dict) -> int:
    print(json.dumps(data, indent=1)[:4000])
    return 0
