"""C16 placeholder for the documented-delta table (filled in below)."""
from __future__ import annotations

LEVEL = "exploration"


def checker(codemod: str):
    return None
