"""C16 - hardening codemods make only their documented edit.

The documented edit of a codemod on a seed is the one the repository's own test expects (vendored corpus): the token
multisets deleted and inserted between the seed's input and expected output.  For every hardening codemod, every seed
is varied along the Variants.tla feature vectors (nesting, layout, line endings, and the argument list of the calls on
the lines the fix touches extended by `**extra_kw` last / in front of the keywords, one more keyword, a `**extra_map`
entry in dict arguments; multiplicity 1) - variations add the same tokens before and after - and run through the real CLI; the delta of each rewritten file (identifiers, attribute
names, keywords, constants, star markers; in source order) must equal the documented delta of its seed: nothing else
deleted, inserted or re-ordered.  The observation enters FileEnd events as `bagOk` and is monitored by Trace_Run.
"""
from __future__ import annotations

import json

from .. import deltas, progspace
from ..common import Check
from . import c01

LEVEL = "exploration"
RULE = ('cases = (hardening codemod, vendored seed, feature vector incl. argument-list variations) programs; non-trivial when the codemod rewrote the file; distinct = distinct (codemod, seed, vector)')
CLAUSE = "FileEnd:rewrite-changed-more-than-the-documented-edit"

HARDENING = [
    "pixee:python/requests-verify", "pixee:python/add-requests-timeouts", "pixee:python/harden-pyyaml", "pixee:python/harden-ruamel",
    "pixee:python/jwt-decode-verify", "pixee:python/enable-jinja2-autoescape", "pixee:python/safe-lxml-parser-defaults", "pixee:python/safe-lxml-parsing",
    "pixee:python/secure-random", "pixee:python/secure-flask-cookie", "pixee:python/subprocess-shell-false", "pixee:python/sandbox-process-creation",
    "pixee:python/url-sandbox", "pixee:python/use-defusedxml", "pixee:python/harden-pickle-load", "pixee:python/https-connection",
    "pixee:python/upgrade-sslcontext-tls", "pixee:python/upgrade-sslcontext-minimum-version", "pixee:python/limit-readline",
    "pixee:python/timezone-aware-datetime", "pixee:python/django-json-response-type", "pixee:python/fix-math-isclose",
]

# the target APIs of these codemods take no further arguments (`datetime.utcnow()`,
# `datetime.utcfromtimestamp(ts)`, `random.random()` ...): a call extended by `**extra_kw` / one more keyword is not a
# valid use of them, so the argument-list variations are not applied there
NO_EXTRA_ARGS = {"pixee:python/timezone-aware-datetime", "pixee:python/secure-random", "pixee:python/limit-readline"}


def run(chk: Check) -> None:
    from .. import seeds

    vectors = [v for v in progspace.enumerate_vectors(chk, with_args=True) if v["mult"] == 1 and v["imp"] == "asis" and v["layout"] != "bom" and v["args"] not in ("same-line-pair", "multiline", "list-elements", "fstring-field", "inline-suite")]
    scenarios = progspace.build_batches(chk, codemods=set(HARDENING), vectors=vectors, seeds_per_codemod=chk.pick(4, 14), vectors_per_seed=chk.pick(9, 40), with_extra=True)
    extra_keys = {s_.key for s_ in seeds.extra()}
    for scn in scenarios:
        # hand-written probes are judged only when they state the documented edit they expect
        for rel in [r for r, m in scn["_metas"].items() if m["seed"] in extra_keys and m.get("seed_expected") == m.get("seed_input")]:
            del scn["_metas"][rel], scn["files"][rel]
    by_key = {s.key: s for s in seeds.load()}
    for scn in scenarios:
        if scn["_codemod"] in NO_EXTRA_ARGS:
            for rel in [r for r, m in scn["_metas"].items() if m["vector"].get("args", "asis") != "asis"]:
                del scn["_metas"][rel], scn["files"][rel]
        expect = {}
        for rel, meta in scn["_metas"].items():
            # the seed's own texts (two tests of different classes may share a name, i.e. a key)
            d = deltas.delta(meta["seed_input"], meta["seed_expected"])
            if d is None:
                continue
            expect[rel] = {"minus": dict(d[0]), "plus": dict(d[1])}
        scn["steps"][0]["bag_expect"] = expect
    results, verdicts = progspace.run_batches(chk, scenarios)
    c01.judge(chk, scenarios, results, verdicts, CLAUSE, "C16", "the rewrite deletes / inserts / re-orders tokens beyond the documented edit of its seed")
    # ---- two codemods in one run: a rule-detected hardening codemod after one whose fix moves its lines; the edit of
    # the whole file must be the sum of the two documented edits (nothing applied to a neighbouring call)
    import json as _json
    from collections import Counter

    from .. import runner, tracecheck
    from . import c18

    pins = set(tuple(x) for x in _json.loads(c18.PINS.read_text())["seeds"]) if c18.PINS.exists() else set()
    cids = [c for c in c18.rule_detected_codemods()]
    pairs = [p for p in c18._pair_scenarios(chk, cids, pins) if set(p["_queue"]) & set(HARDENING)]
    by_key2 = {}
    for s_ in seeds.load():
        by_key2.setdefault(s_.key, s_)
    pres = runner.run_many(pairs)
    ptraces = []
    for scn, r in zip(pairs, pres):
        first = r["steps"][0]
        ptraces.append(first["trace"])
        for rel, meta in scn["_metas"].items():
            want_m, want_p = Counter(), Counter()
            ok = True
            # the sum is only owed when neither rule can match the other seed: seeds that import the same module are left out
            mods = []
            for key in meta["seeds"].values():
                sd = by_key2.get(key)
                mods.append({ln.split()[1].split(".")[0] for ln in (sd.input.split("\n") if sd else []) if ln.strip().startswith(("import ", "from ")) and len(ln.split()) > 1})
            if len(mods) == 2 and mods[0] & mods[1]:
                continue
            for cid, key in meta["seeds"].items():
                sd = by_key2.get(key)
                d = deltas.delta(sd.input, sd.expected) if sd else None
                if d is None:
                    ok = False
                    break
                want_m.update(d[0])
                want_p.update(d[1])
            got = deltas.delta(scn["files"][rel], first["after"].get(rel, scn["files"][rel])) if ok else None
            if got is None:
                continue
            chk.count()
            chk.nontrivial(("pair", scn["_queue"], rel, meta["order"], tuple(sorted(meta["seeds"].values()))))
            # two fixes may share or merge their import lines: the sum is taken over the code, not over the imports
            strip = lambda c: Counter({k: v for k, v in c.items() if not k.startswith("import:")})  # noqa: E731
            got = (strip(got[0]), strip(got[1]))
            want_m, want_p = strip(want_m), strip(want_p)
            if (got[0], got[1]) != (want_m, want_p):
                q = scn["_queue"]
                chk.violation(f"C16|pair|{q[0].split('/')[-1]}>{q[1].split('/')[-1]}|{'+'.join(v.split('|')[-1] for v in meta['seeds'].values())}|{meta['order']}",
                              f"run of {q[0]} then {q[1]} over a file holding seeds {meta['seeds']} ({meta['order']}): the edit of the file is not the sum of the two documented edits: "
                              f"additionally deleted {dict(got[0] - want_m)}, additionally inserted {dict(got[1] - want_p)}, documented but not made {dict((want_m - got[0]) + (want_p - got[1]))}",
                              {"argv": scn["steps"][0]["argv"], "program": scn["files"][rel], "after": first["after"].get(rel)})
    if ptraces:
        _v, stats = tracecheck.validate(ptraces)
        for s_ in stats:
            chk.add_tlc(s_)
        chk.coverage["traces_validated_against_impl"] += len(ptraces)
    chk.coverage["two_codemod_runs"] = len(pairs)
    chk.sample({"codemod": scenarios[0]["_codemod"], "documented_delta_of_first_file": list(scenarios[0]["steps"][0]["bag_expect"].values())[:1]})
    chk.assumptions += [
        "the documented edit of a codemod on a seed is the one the repository's own test expects for that seed",
        "variants whose base seed is not rewritten the documented way would be flagged as well (the vendored expectation is the reference)",
        "programs outside seeds x generic variations are not covered",
    ]


def replay(data: dict) -> int:
    print(json.dumps(data, indent=1)[:4000])
    return 0
