"""C02 - rewrites never introduce unbound names or drop bindings still in use.

Same scenario space as C01 (Variants.tla feature vectors applied to the vendored seeds of every codemod, SAST seeds
with their findings, codemod sequences from ProgramSpace).  The observation unresolved(after) \\subseteq
unresolved(before) - scope-aware, computed with CPython's symtable - enters every FileEnd event and is monitored by
Trace_Run.
"""
from __future__ import annotations

import json

from .. import progspace, runspace
from ..common import Check
from . import c01

LEVEL = "exploration"
RULE = ('cases = (codemod, vendored seed, Variants.tla feature vector) programs plus ProgramSpace run vectors; non-trivial when the codemod rewrote the file; distinct = distinct (codemod, seed, vector) / run-vector keys')
CLAUSE = "FileEnd:rewrite-introduced-an-unresolved-name"


def run(chk: Check) -> None:
    vectors = progspace.enumerate_vectors(chk, with_args=True)
    scenarios = progspace.build_batches(chk, with_extra=True, vectors=vectors, seeds_per_codemod=chk.pick(3, 8), vectors_per_seed=chk.pick(8, 50))
    scenarios += progspace.build_line_filter_batches(chk, multi_statement_only=chk.quick)
    scenarios += progspace.build_sast(chk, max_per_codemod=chk.pick(1, 4))
    results, verdicts = progspace.run_batches(chk, scenarios)
    c01.judge(chk, scenarios, results, verdicts, CLAUSE, "C02", "a name is unresolved only after the rewrite")
    vs = [v for v in runspace.enumerate_vectors(chk) if len(v["queue"]) >= 2 and not v["dryRun"] and v["manifest"] == "none"]
    sample = runspace.sample_covering(chk, vs, chk.pick(25, 400), dims=("program", "layout"))
    seq = []
    for i, v in enumerate(sample):
        sc = runspace.scenario_for(v, f"C02-seq-{i}")
        sc["steps"][0]["observe"] = True
        seq.append(sc)
    for scn, res, vd in runspace.run_and_validate(chk, seq):
        chk.count()
        chk.nontrivial(("seq", runspace.vkey(scn["_v"])))
        st = res["steps"][0]
        if CLAUSE in vd[st["trace"]["id"]]:
            chk.violation(f"C02|seq|{runspace.vkey(scn['_v'])}", f"sequence {runspace.vkey(scn['_v'])}: {st['notes'][:2]}", {"vector": scn["_v"], "files": scn["files"]})
    check_import_use(chk)
    chk.sample({"codemod": scenarios[0]["_codemod"], "variants": [progspace.vec_key(m["vector"]) for m in list(scenarios[0]["_metas"].values())[:8]]})
    chk.assumptions += ["unresolved(.) is computed with symtable + builtins; files with a star import are not judged",
                        "programs outside seeds x generic variations are not covered"]


# ---------------------------------------------------------------------------------------------------------------
# ImportUse.tla: one imported name, one way of using it
_IMPORTS = {   # form -> (statement, bound name N, expression R that reads it and evaluates to a class)
    "import": ("import json", "json", "json.JSONDecoder"),
    "import-as": ("import json as j", "j", "j.JSONDecoder"),
    "from": ("from json import JSONDecoder", "JSONDecoder", "JSONDecoder"),
    "from-as": ("from json import JSONDecoder as JD", "JD", "JD"),
    "dotted": ("import json.decoder", "json", "json.decoder.JSONDecoder"),
    "dotted-as": ("import json.decoder as jd", "jd", "jd.JSONDecoder"),
    "from-pair": ("from json import JSONDecoder, JSONEncoder", "JSONDecoder", "JSONDecoder"),
    "import-pair": ("import sys, json", "json", "json.JSONDecoder"),
    "from-paren": ("from json import (\n    JSONEncoder,\n    JSONDecoder,\n)", "JSONDecoder", "JSONDecoder"),
}
_PRAGMAS = {"noqa": "# noqa", "noqa-code": "# noqa: F401", "pylint": "# pylint: disable=unused-import"}
_MISSING = "print([n for n in __all__ if n not in globals()])"


def _use_text(use: str, N: str, R: str) -> str:
    return {
        "none": "print('x')",
        "load": f"print({R}.__name__)",
        "nested-func": f"def f():\n    def g():\n        return {R}\n    return g()\nprint(f().__name__)",
        "class-body": f"class C:\n    v = {R}\nprint(C.v.__name__)",
        "decorator": f"def deco(v):\n    return lambda fn: fn\n@deco({R})\ndef f():\n    return 1\nprint(f())",
        "default-arg": f"def f(a={R}):\n    return a\nprint(f().__name__)",
        "annotation": f"def f(a: {R}):\n    return None\nprint(f.__annotations__['a'].__name__)",
        "return-annotation": f"def f() -> {R}:\n    return None\nprint(f.__annotations__['return'].__name__)",
        "fstring": f"print(f'{{{R}.__name__}}')",
        "comprehension": f"print([{R}.__name__ for _ in range(2)])",
        "lambda": f"g = lambda: {R}\nprint(g().__name__)",
        "del": f"del {N}\nprint('x')",
        "global-func": f"def f():\n    global {N}\n    return {R}\nprint(f().__name__)",
        "except": f"try:\n    pass\nexcept {R}:\n    pass\nprint('x')",
        "base-class": f"class D({R}):\n    pass\nprint(D.__mro__[1].__name__)",
        "attr-assign": f"{R}.zzz = 1\nprint({R}.zzz)",
        "walrus": f"if (v := {R}):\n    print(v.__name__)",
        "str-annotation": f"def f(a: '{R}'):\n    return None\nprint(eval(f.__annotations__['a']).__name__)",
        "all-literal": f"__all__ = ['{N}']\n{_MISSING}",
        "all-tuple": f"__all__ = ('{N}',)\n{_MISSING}",
        "all-aug": f"__all__ = []\n__all__ += ['{N}']\n{_MISSING}",
        "all-append": f"__all__ = []\n__all__.append('{N}')\n{_MISSING}",
        "all-extend": f"__all__ = []\n__all__.extend(['{N}'])\n{_MISSING}",
        "all-concat": f"_base = []\n__all__ = _base + ['{N}']\n{_MISSING}",
        "shadow-param": f"def f({N}):\n    return {N}\nprint(f(2))",
        "rebind-before": f"{N} = 3\nprint({N})",
        "other-name": f"v = ['{N}']\nprint(v)",
    }[use]


def _ind(text: str) -> str:
    return "\n".join("    " + ln for ln in text.split("\n"))


def _import_program(p: dict) -> tuple[str, str]:
    stmt, N, R = _IMPORTS[p["form"]]
    lines = stmt.split("\n")
    if p["pragma"] in _PRAGMAS:
        lines[0] += "  " + _PRAGMAS[p["pragma"]]
    elif p["pragma"] == "pylint-next":
        lines.insert(0, "# pylint: disable-next=unused-import")
        if p["place"] == "module":
            lines.insert(0, "import os.path  # (comments above the first statement of a file belong to the file, not to the statement)\nprint(os.path.sep)")
    stmt = "\n".join(lines)
    other = {"from-pair": "print(JSONEncoder.__name__)", "from-paren": "print(JSONEncoder.__name__)", "import-pair": "print(sys.flags.isolated)"}.get(p["form"])
    use = _use_text(p["use"], N, R)
    if other:
        use = other + "\n" + use
    place = p["place"]
    if place == "module":
        text = f"{stmt}\n{use}"
    elif place == "function":
        text = f"def main():\n{_ind(stmt)}\n{_ind(use)}\nmain()"
    elif place == "class":
        text = f"class K:\n{_ind(stmt)}\n{_ind(use)}"
    elif place == "try":
        text = f"try:\n{_ind(stmt)}\nexcept ImportError:\n    {N} = None\n{use}"
    else:
        text = f"import os\nif os.sep:\n{_ind(stmt)}\nelse:\n    {N} = None\n{use}"
    return text + "\n", N


def _import_bound(text: str) -> set:
    import ast

    out = set()
    for n in ast.walk(ast.parse(text)):
        if isinstance(n, (ast.Import, ast.ImportFrom)):
            for a in n.names:
                out.add(a.asname or a.name.split(".")[0])
    return out


def check_import_use(chk: Check) -> None:
    """ImportUse.tla: (import form x place x use x file x pragma); TLC decides that the removal rule removes unused
    imports only; the real codemod is compared with the rule, and every program is executed before and after."""
    import random
    from concurrent.futures import ThreadPoolExecutor

    from .. import gen, runner, tlc, tracecheck
    from .c08 import _execute

    res = gen.run_generator("ImportUse", None, None, cfg="ImportUse.cfg")
    chk.add_tlc(res)
    cases = [(st["p"], st["exp"]) for st in res.dump if st["st"] == "done"]
    cases.sort(key=lambda x: json.dumps(x[0], sort_keys=True))
    if chk.quick:
        # every way of exporting; a seeded sample of the pragma / __init__ programs and of the rest
        rnd = random.Random(chk.seed + 5)
        exports = [c for c in cases if c[0]["use"].startswith("all-") and c[0]["pragma"] == "none" and c[0]["file"] == "mod"]
        special = [c for c in cases if c not in exports and (c[0]["pragma"] != "none" or c[0]["file"] == "init")]
        rest = [c for c in cases if c not in exports and c not in special]
        cases = exports + rnd.sample(special, 90) + rnd.sample(rest, 220)
    files, names = {}, {}
    for i, (p, _e) in enumerate(cases):
        rel = f"pkg{i:04d}/__init__.py" if p["file"] == "init" else f"u{i:04d}.py"
        files[rel], names[rel] = _import_program(p)
    rels = list(files)
    per = max(1, (len(rels) + 15) // 16)
    scns = [{"id": f"C02-importuse-{b // per}", "files": {r: files[r] for r in rels[b : b + per]},
             "steps": [{"argv": ["{dir}", "--output", "{out}", "--codemod-include", "pixee:python/unused-imports"], "keep_after": True}]}
            for b in range(0, len(rels), per)]
    sts = [r["steps"][0] for r in runner.run_many(scns)]
    after_all = {}
    for st_ in sts:
        after_all.update(st_["after"])
    jobs = [(p, e, rel, files[rel], after_all.get(rel, files[rel])) for (p, e), rel in zip(cases, rels)]
    with ThreadPoolExecutor(max_workers=16) as ex:
        outs = list(ex.map(lambda j: (_execute(j[3]), _execute(j[4]) if j[4] != j[3] else None), jobs))
    ok, deviates, removed_n = True, 0, 0
    dev_shapes = []
    for (p, e, rel, before, after), (o1, o2) in zip(jobs, outs):
        chk.count()
        shape = "/".join(p[k] for k in ("form", "place", "use", "file", "pragma"))
        if "EXC" in o1 or "rc=0" not in o1:
            raise tlc.TlcFailure(f"the generated import program [{shape}] does not run: {o1[:300]}\n{before}")
        removed = names[rel] not in _import_bound(after)
        if removed:
            removed_n += 1
        if removed or e["inuse"]:
            chk.nontrivial(shape)
        if removed != bool(e["removes"]):
            deviates += 1
            dev_shapes.append((shape, removed))
        if (removed and e["inuse"]) or (o2 is not None and o2 != o1):
            ok = False
            chk.violation(f"C02|importuse|{p['use']}|{p['place']}|{p['file']}", f"unused-imports on [{shape}]: the import of `{names[rel]}` was {'removed' if removed else 'kept'} "
                          f"(in use: {e['inuse']}); output before {o1!r} after {o2!r}", {"before": before, "after": after, "program": p})
    sts[0]["trace"]["events"].append({"ev": "Compare", "what": "an-import-that-is-in-use-was-removed", "equal": ok})
    verdicts, stats = tracecheck.validate([st_["trace"] for st_ in sts])
    for s_ in stats:
        chk.add_tlc(s_)
    chk.coverage["traces_validated_against_impl"] = chk.coverage.get("traces_validated_against_impl", 0) + len(sts)
    chk.coverage["importuse_programs"] = len(cases)
    chk.coverage["importuse_removed"] = removed_n
    chk.coverage["importuse_code_deviates_from_rule"] = deviates
    chk.coverage["importuse_deviating_shapes"] = sorted({f"{s_.split('/')[2]}/{s_.split('/')[1]}/{s_.split('/')[4]}:{'removed' if r else 'kept'}" for s_, r in dev_shapes})[:40]


def replay(data: dict) -> int:
    print(json.dumps(data, indent=1)[:4000])
    return 0
