"""C02 - rewrites never introduce unbound names or drop bindings still in use.

Same scenario space as C01 (Variants.tla feature vectors applied to the vendored seeds of every codemod, SAST seeds
with their findings, codemod sequences from ProgramSpace).  The observation unresolved(after) \\subseteq
unresolved(before) - scope-aware, computed with CPython's symtable - enters every FileEnd event and is monitored by
Trace_Run.
"""
from __future__ import annotations

import json

from .. import progspace, runspace
from ..common import Check
from . import c01

LEVEL = "exploration"
RULE = ('cases = (codemod, vendored seed, Variants.tla feature vector) programs plus ProgramSpace run vectors; non-trivial when the codemod rewrote the file; distinct = distinct (codemod, seed, vector) / run-vector keys')
CLAUSE = "FileEnd:rewrite-introduced-an-unresolved-name"


def run(chk: Check) -> None:
    vectors = progspace.enumerate_vectors(chk, with_args=True)
    scenarios = progspace.build_batches(chk, with_extra=True, vectors=vectors, seeds_per_codemod=chk.pick(3, 8), vectors_per_seed=chk.pick(8, 50))
    scenarios += progspace.build_line_filter_batches(chk, multi_statement_only=chk.quick)
    scenarios += progspace.build_sast(chk, max_per_codemod=chk.pick(1, 4))
    results, verdicts = progspace.run_batches(chk, scenarios)
    c01.judge(chk, scenarios, results, verdicts, CLAUSE, "C02", "a name is unresolved only after the rewrite")
    vs = [v for v in runspace.enumerate_vectors(chk) if len(v["queue"]) >= 2 and not v["dryRun"] and v["manifest"] == "none"]
    sample = runspace.sample_covering(chk, vs, chk.pick(25, 400), dims=("program", "layout"))
    seq = []
    for i, v in enumerate(sample):
        sc = runspace.scenario_for(v, f"C02-seq-{i}")
        sc["steps"][0]["observe"] = True
        seq.append(sc)
    for scn, res, vd in runspace.run_and_validate(chk, seq):
        chk.count()
        chk.nontrivial(("seq", runspace.vkey(scn["_v"])))
        st = res["steps"][0]
        if CLAUSE in vd[st["trace"]["id"]]:
            chk.violation(f"C02|seq|{runspace.vkey(scn['_v'])}", f"sequence {runspace.vkey(scn['_v'])}: {st['notes'][:2]}", {"vector": scn["_v"], "files": scn["files"]})
    chk.sample({"codemod": scenarios[0]["_codemod"], "variants": [progspace.vec_key(m["vector"]) for m in list(scenarios[0]["_metas"].values())[:8]]})
    chk.assumptions += ["unresolved(.) is computed with symtable + builtins; files with a star import are not judged",
                        "programs outside seeds x generic variations are not covered"]


def replay(data: dict) -> int:
    print(json.dumps(data, indent=1)[:4000])
    return 0
