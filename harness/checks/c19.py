"""C19 - regex and XML pipelines edit only their targets and preserve everything else.

Regex: LinePipe.tla enumerates every document of <= N lines (line matches / carries a finding) x {plain, SAST, SAST
without results} x line-ending style x final newline x dry-run and gives the reference outcome (edited lines, findings
per change, unfixed findings, whether the file is written); each is replayed through the public
RegexTransformerPipeline / SastRegexTransformerPipeline.apply.
XML: XmlDocs.tla enumerates abstract documents (target / other / namespaced elements, attribute subsets, text with
entity references, CDATA, comments, processing instructions, DOCTYPE, nesting) x transformer kind x findings and
computes the abstract document after the edit; the real XMLTransformerPipeline output is parsed with expat (an
independent parser) and its event list must equal the events of the expected document, insignificant whitespace aside.
"""
from __future__ import annotations

import json
import tempfile
from pathlib import Path

from .. import patch, tlc
from ..common import Check, scratch, scratch_root

LEVEL = "model_checking"
RULE = ('cases = LinePipe.tla documents (lines x matches x finding x eol x final newline x dry-run) and XmlDocs.tla documents (items x selection x doctype); non-trivial when at least one line/element matches; distinct = distinct documents')


def _ctx(directory: Path, dry: bool):
    from unittest import mock

    from codemodder.context import CodemodExecutionContext

    return CodemodExecutionContext(directory=directory, dry_run=dry, verbose=False, registry=mock.MagicMock(), providers=mock.MagicMock(),
                                   repo_manager=mock.MagicMock(), path_include=[], path_exclude=[])


def _result(path: Path, line: int, col: int = 1, fid: str | None = None):
    from codemodder.codetf import Finding, Rule
    from codemodder.result import LineInfo
    from codemodder.semgrep import SemgrepLocation, SemgrepResult

    fid = fid or f"L{line}"
    return SemgrepResult(rule_id="rule", locations=[SemgrepLocation(file=path, start=LineInfo(line, col), end=LineInfo(line, col + 4))],
                         finding_id=fid, finding=Finding(id=fid, rule=Rule(id="rule", name="rule")))


def _fn(x, n):
    """a TLC function over a subset of 1..n printed either as a sequence or as (k :> v @@ ...)"""
    if isinstance(x, dict):
        return {int(k): v for k, v in x.items()}
    return {i + 1: v for i, v in enumerate(x)}


REPL = "hello(bye)"  # not idempotent: a line edited twice shows


def check_regex(chk: Check) -> None:
    from codemodder.codemods.regex_transformer import RegexTransformerPipeline, SastRegexTransformerPipeline
    from codemodder.file_context import FileContext

    d = scratch("linepipe")
    (d / "LinePipe.tla").write_text((tlc.SPEC_DIR / "LinePipe.tla").read_text())
    (d / "LinePipe.cfg").write_text((tlc.SPEC_DIR / "LinePipe.cfg").read_text().replace("MaxLines = 3", f"MaxLines = {chk.pick(3, 4)}"))
    res = tlc.run_tlc(d, "LinePipe", "LinePipe.cfg", dump=True)
    if res.violated:
        raise tlc.TlcFailure(f"LinePipe lemma violated {res.violated[0][:2]}")
    chk.add_tlc(res)
    base = Path(tempfile.mkdtemp(prefix="c19-", dir=scratch_root()))
    n = 0
    for st in res.dump:
        if st["st"] != "done":
            continue
        sc, exp = st["d"], st["exp"]
        doc = sc["doc"]
        eol = "\r\n" if sc["eol"] == "crlf" else "\n"
        lines = [(f'key{i} = "hello world"  # line {i}' if ln["m"] else f"other{i} = {i}") for i, ln in enumerate(doc, 1)]
        n += 1
        if n % 3 == 0:   # every third document starts with a byte order mark: part of line 1, not a target
            lines[0] = "\ufeff" + lines[0]
        text = eol.join(lines) + (eol if sc["finalnl"] else "")
        root = base / f"r{n}"
        root.mkdir()
        path = root / "doc.txt"
        path.write_bytes(text.encode())
        all_results = [_result(Path("doc.txt"), i, fid=f"L{i}.{k}") for i, ln in enumerate(doc, 1) for k in range(1, ln["f"] + 1)]
        mode = sc["mode"]
        # every second document is edited with a pattern whose match reaches the end of the line (`\s*$` also matches
        # the line terminator when the terminator is handed to the regular expression: the line would be joined with the next)
        pat, repl = (r"# line (\d+)\s*$", r"# LINE \1") if n % 2 == 0 else ("hello", REPL)
        if mode == "plain":
            pipe, results, fc_results = RegexTransformerPipeline(pat, repl, "edit"), None, all_results
        elif mode == "sast":
            pipe, results, fc_results = SastRegexTransformerPipeline(pat, repl, "edit"), all_results, all_results
        else:
            pipe, results, fc_results = SastRegexTransformerPipeline(pat, repl, "edit"), [], []
        if mode == "sast" and not all_results:
            continue  # SAST use with results = None is not a SAST use; with an empty list it is the "noresults" mode
        fc = FileContext(root, path, [], [], fc_results)
        chk.count()
        chk.coverage["traces_validated_against_impl"] += 1  # one specification behaviour replayed into the implementation
        if exp["edited"]:
            chk.nontrivial((mode, tuple((ln["m"], ln["f"]) for ln in doc), sc["eol"], sc["finalnl"], sc["dry"]))
        try:
            cs = pipe.apply(_ctx(root, sc["dry"]), fc, results)
        except Exception as ex:  # noqa: BLE001
            chk.violation(f"C19|regex|{mode}|raises|{type(ex).__name__}", f"{mode} pipeline on {[(ln['m'], ln['f']) for ln in doc]}: raised {type(ex).__name__}: {ex}", {"text": text})
            continue
        after = path.read_bytes().decode()
        edited = sorted(exp["edited"])
        want_find = _fn(exp["findings"], len(doc)) if edited else {}
        if isinstance(exp["findings"], tuple):
            want_find = {ln: v for ln, v in zip(edited, exp["findings"])}
        problems = []
        got_lines = sorted(ch.lineNumber for ch in cs.changes) if cs else []
        if got_lines != edited:
            problems.append(f"change entries on lines {got_lines}, edited lines {edited}")
        if cs:
            for ch in cs.changes:
                got = sorted(f.id for f in (ch.findings or []))
                want = sorted(f"L{i}.{k}" for i, k in want_find.get(ch.lineNumber, ()))
                if got != want:
                    problems.append(f"change on line {ch.lineNumber} carries findings {got}, reported on that line: {want}")
        got_unfixed = sorted(u.id for u in fc.unfixed_findings)
        want_unfixed = sorted(f"L{i}.{k}" for i, k in exp["unfixed"])
        if got_unfixed != want_unfixed:
            problems.append(f"unfixed findings {got_unfixed}, expected {want_unfixed}")
        want_lines = [((ln.replace("hello", REPL) if n % 2 else ln.replace("# line", "# LINE")) if i in exp["edited"] else ln) for i, ln in enumerate(lines, 1)]
        want_text = eol.join(want_lines) + (eol if sc["finalnl"] else "")
        if exp["writes"]:
            if after != want_text:
                problems.append("file content after the run is not the original with exactly the edited lines replaced")
        elif after != text:
            problems.append("file was written although nothing had to be written (dry-run or no edit)")
        if cs:
            try:
                patched = patch.apply_unified(cs.diff, text)
                if not patch.same_modulo_final_newline(patched, want_text):
                    problems.append("reported diff does not lead from the original to the edited content")
            except patch.PatchError as ex:
                problems.append(f"reported diff does not apply: {ex}")
        if problems:
            kinds = sorted({p.split(" ")[0] + " " + p.split(" ")[1] for p in problems})
            chk.violation(f"C19|regex|{mode}|{'+'.join(kinds)}",
                          f"{mode} regex pipeline, lines (matches, finding) = {[(ln['m'], ln['f']) for ln in doc]}, eol={sc['eol']} finalnl={sc['finalnl']} dry={sc['dry']}: {problems}",
                          {"text": text, "mode": mode, "problems": problems})
    chk.sample({"regex_scenario": {"lines": "(matches, finding) per line", "example": [[True, 2], [False, 1], [True, 0]], "mode": "sast"}})
    import shutil

    shutil.rmtree(base, ignore_errors=True)


def run(chk: Check) -> None:
    import logging

    logging.getLogger("codemodder").setLevel(logging.CRITICAL)
    check_regex(chk)
    from . import c19_xml

    c19_xml.check_xml(chk)
    chk.assumptions += [
        "regex: the pattern is a plain word or (every second document) a pattern ending in `\\s*$`; one edit per matching line; the replacement holds no line break",
        "XML: documents are compared as expat event lists; whitespace-only text between elements is insignificant; the only DTD internal subset generated declares a default attribute (entity declarations are refused by the hardened parser); documents are UTF-8 or ISO-8859-1",
    ]


def replay(data: dict) -> int:
    print(json.dumps(data, indent=1)[:4000])
    return 0
