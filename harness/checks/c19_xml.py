"""XML half of C19: abstract documents from XmlDocs.tla -> real files -> XMLTransformerPipeline -> expat event lists."""
from __future__ import annotations

import functools
import tempfile
import xml.parsers.expat
from pathlib import Path

from .. import patch, tlc
from ..common import Check, scratch, scratch_root

ATTR_VALUES = {"a": "1", "b": "2", "a!": "X", "c!": "N"}
MAP = {"t": {"a": "X", "c": "N"}}
TEXT = "x &amp; y &lt; z"
TEXT_DATA = "x & y < z"
CDATA = "a < b & c ]] d"
COMMENT = " a comment -- almost "
COMMENT_OK = " a comment - almost "


def _attrs(names) -> dict:
    out = {}
    for n in sorted(names):
        out[n.rstrip("!")] = ATTR_VALUES[n]
    return out


def render(items, doctype: str, indent: str = "  "):
    """-> (text, {path: line of the element's start tag, ('end', path): line of its end tag})"""
    lines = ['<?xml version="1.0" encoding="utf-8"?>']
    if doctype == "plain":
        lines.append("<!DOCTYPE root>")
    elif doctype == "system":
        lines.append('<!DOCTYPE root SYSTEM "root.dtd">')
    elif doctype == "public":
        lines.append('<!DOCTYPE root PUBLIC "-//EX//DTD Example//EN" "root.dtd">')
    elif doctype == "subset":
        lines += ["<!DOCTYPE root [", '  <!ATTLIST o d CDATA "dflt">', "]>"]
    lines.append('<root xmlns:ns="urn:example">')
    where = {}

    def leaf(n, path, pad):
        k = n["k"]
        a = "".join(f' {k_}="{v}"' for k_, v in _attrs(n["attrs"]).items())
        if k in ("t", "o"):
            if n["kids"]:
                where[path] = len(lines) + 1
                lines.append(f"{pad}<{k}{a}>")
                for j, kid in enumerate(n["kids"], 1):
                    leaf(kid, path + (j,), pad + indent)
                where[("end", path)] = len(lines) + 1
                lines.append(f"{pad}</{k}>")
            else:
                where[path] = len(lines) + 1
                where[("end", path)] = len(lines) + 1
                lines.append(f"{pad}<{k}{a}></{k}>")
        elif k == "n":
            lines.append(f'{pad}<ns:o ns:q="v"></ns:o>')
        elif k == "x":
            lines.append(f"{pad}<o>{TEXT}</o>")
        elif k == "c":
            lines.append(f"{pad}<o><![CDATA[{CDATA.replace(']]', ']]]]><![CDATA[')}]]></o>" if False else f"{pad}<o><![CDATA[a < b & c]]></o>")
        elif k == "m":
            lines.append(f"{pad}<!--{COMMENT_OK}-->")
        elif k == "mx":
            lines.append(f"{pad}<o>before<!--{COMMENT_OK}-->after</o>")
        elif k == "p":
            lines.append(f"{pad}<?pi some data?>")
        elif k == "e":
            lines.append(f'{pad}<o q="\u00fc">caf\u00e9</o>')
        elif k == "r":
            lines.append(f'{pad}<o q="x&#13;&#10;&#9;y">a&#13;b&#13;&#10;c</o>')
        elif k == "added":
            lines.append(f'{pad}<added k="v">txt</added>')

    for i, it in enumerate(items, 1):
        leaf(it, (i,), indent)
    lines.append("</root>")
    return "\n".join(lines) + "\n", where


def events(text: str) -> list:
    """Independent parse (expat): element / attribute / character data / comment / PI / doctype events; whitespace-only
    character data is insignificant, any other character data counts with its white space; CDATA sections contribute their content as character data."""
    out: list = []
    buf: list[str] = []

    def flush():
        if buf:
            s = "".join(buf)
            buf.clear()
            if s.strip():
                out.append(("text", s))   # character data that is not only white space counts as it stands

    p = xml.parsers.expat.ParserCreate()
    p.ordered_attributes = False
    p.StartElementHandler = lambda name, attrs: (flush(), out.append(("start", name, tuple(sorted(attrs.items())))))
    p.EndElementHandler = lambda name: (flush(), out.append(("end", name)))
    p.CharacterDataHandler = lambda data: buf.append(data)
    p.CommentHandler = lambda data: (flush(), out.append(("comment", data)))
    p.ProcessingInstructionHandler = lambda target, data: (flush(), out.append(("pi", target, data)))
    p.StartDoctypeDeclHandler = lambda name, sysid, pubid, internal: out.append(("doctype", name, sysid, pubid))
    p.Parse(text, True)
    flush()
    return out


def check_xml(chk: Check) -> None:
    from codemodder.codemods.xml_transformer import ElementAttributeXMLTransformer, NewElement, NewElementXMLTransformer, XMLTransformerPipeline
    from codemodder.file_context import FileContext

    from .c19 import _ctx, _result

    d = scratch("xmldocs")
    (d / "XmlDocs.tla").write_text((tlc.SPEC_DIR / "XmlDocs.tla").read_text())
    (d / "XmlDocs.cfg").write_text((tlc.SPEC_DIR / "XmlDocs.cfg").read_text().replace("Sample = 40", f"Sample = {chk.pick(60, 1500)}"))
    res = tlc.run_tlc(d, "XmlDocs", "XmlDocs.cfg", dump=True, seed=chk.seed + 1)
    if res.violated:
        raise tlc.TlcFailure(f"XmlDocs lemma violated {res.violated[0][:2]}")
    chk.add_tlc(res)
    base = Path(tempfile.mkdtemp(prefix="c19x-", dir=scratch_root()))
    n = 0
    sampled = False
    for st in res.dump:
        if st["st"] != "done":
            continue
        sc, exp = st["doc"], st["exp"]
        items = sc["items"]
        text, where = render(items, sc["doctype"])
        want_text, _ = render(exp["items"], sc["doctype"])
        try:
            want_events = events(want_text)
            before_events = events(text)
        except xml.parsers.expat.ExpatError as ex:
            raise tlc.TlcFailure(f"harness rendered ill-formed XML: {ex}\n{text}") from ex
        n += 1
        root = base / f"x{n}"
        root.mkdir()
        path = root / "doc.xml"
        latin1 = n % 2 == 0 and "caf\u00e9" in text
        if latin1:   # a well-formed document in another declared encoding
            text = text.replace('encoding="utf-8"', 'encoding="iso-8859-1"', 1)
            want_text = want_text.replace('encoding="utf-8"', 'encoding="iso-8859-1"', 1)
            path.write_bytes(text.encode("iso-8859-1"))
        else:
            path.write_text(text, encoding="utf-8")
        stored = path.read_bytes()
        targets = sorted((p for p in where if p and p[0] != "end" and _node(items, p)["k"] == "t"), key=lambda p: (p[0], len(p), p))
        if sc["kind"] == "attr":
            if sc["sel"] == "all":
                results = None
            elif sc["sel"] == "empty":
                results = []
            elif sc["sel"] == "none":
                results = [_result(Path("doc.xml"), 1, 1, "decoy")]  # a finding on the XML declaration line: no element there
            else:
                results = [_result(Path("doc.xml"), where[targets[0]], 1, f"L{where[targets[0]]}")] if targets else [_result(Path("doc.xml"), 1, 1, "decoy")]
            cls = functools.partial(ElementAttributeXMLTransformer, name_attributes_map=MAP, line_only_matching=True)
            change_lines = sorted(where[p] for p in (targets if sc["sel"] == "all" else (targets[:1] if sc["sel"] == "first" else [])))
        else:
            results = None
            cls = functools.partial(NewElementXMLTransformer, new_elements=[NewElement(name="added", parent_name="t", content="txt", attributes={"k": "v"})])
            change_lines = sorted(where[("end", p)] for p in targets)
        fc = FileContext(root, path, [], [], results or [])
        dry = n % 3 == 0
        chk.count()
        chk.coverage["traces_validated_against_impl"] += 1  # one specification behaviour replayed into the implementation
        if exp["nchanges"]:
            chk.nontrivial((sc["kind"], sc["sel"], sc["doctype"], str(items)))
        try:
            cs = XMLTransformerPipeline(cls).apply(_ctx(root, dry), fc, results)
        except Exception as ex:  # noqa: BLE001
            chk.violation(f"C19|xml|{sc['kind']}|raises|{type(ex).__name__}", f"XML pipeline raised {type(ex).__name__}: {ex}", {"document": text})
            continue
        raw = path.read_bytes()
        after = text if raw == stored else raw.decode("utf-8", "replace")
        problems = []
        if fc.failures and cs is None and after == text:
            # the pipeline declined the document (external DTD references are refused on purpose) and left it alone
            chk.coverage["xml_documents_declined_untouched"] = chk.coverage.get("xml_documents_declined_untouched", 0) + 1
            continue
        if fc.failures:
            problems.append("document reported as failed but modified")
        got_lines = sorted(ch.lineNumber for ch in cs.changes) if cs else []
        if got_lines != change_lines:
            problems.append(f"change entries on lines {got_lines}, edited elements on lines {change_lines}")
        if cs and results:
            for ch in cs.changes:
                got = sorted(f.id for f in (ch.findings or []))
                want = sorted(r.finding.id for r in results if r.locations[0].start.line == ch.lineNumber)
                if got != want:
                    problems.append(f"change on line {ch.lineNumber} carries findings {got}, reported there: {want}")
        if dry or not exp["nchanges"]:
            if after != text:
                problems.append("file written although nothing had to be written (dry-run or no edit)")
            produced = None
            if cs:
                try:
                    produced = patch.apply_unified(cs.diff, text)
                except patch.PatchError as ex:
                    problems.append(f"reported diff does not apply: {ex}")
        else:
            produced = after
            if cs:
                try:
                    if not patch.same_modulo_final_newline(patch.apply_unified(cs.diff, text), after):
                        problems.append("reported diff does not lead to the written content")
                except patch.PatchError as ex:
                    problems.append(f"reported diff does not apply: {ex}")
        if produced is not None and exp["nchanges"]:
            try:
                got_events = events(produced)
            except xml.parsers.expat.ExpatError as ex:
                got_events = None
                problems.append(f"output is not well-formed XML: {ex}")
            if got_events is not None and got_events != want_events:
                diff = next(((a, b) for a, b in zip(got_events, want_events) if a != b), (len(got_events), len(want_events)))
                kind = diff[1][0] if isinstance(diff[1], tuple) else "length"
                problems.append(f"content-differs[{kind}]: got {diff[0]!r} expected {diff[1]!r}")
        if problems:
            kinds = sorted({p.split(":")[0].split(" on lines")[0][:60] for p in problems})
            chk.violation(f"C19|xml|{sc['kind']}|{'+'.join(kinds)}",
                          f"XML {sc['kind']} transformer, doctype={sc['doctype']}, selection={sc['sel']}: {problems}",
                          {"document": text, "expected": want_text, "output": produced, "problems": problems})
        if not sampled and exp["nchanges"] and len(items) > 1:
            chk.sample({"xml_document": text, "kind": sc["kind"], "selection": sc["sel"]})
            sampled = True
        _ = before_events
    import shutil

    shutil.rmtree(base, ignore_errors=True)


def _node(items, path):
    n = items[path[0] - 1]
    for j in path[1:]:
        n = n["kids"][j - 1]
    return n
