"""C20 - the exit status tells the caller what happened.

Cli.tla gives the documented status as a function of an abstract token sequence and the AI-client environment;
Gen_Cli enumerates all sequences up to a length over the token pool below (plus seeded longer ones) and TLC computes
the expected status.  Each scenario is made concrete (argv, result files, environment, output path) and run through
the real `codemodder.run`; the recorded trace, with the expected status in RunStart, is judged by Trace_Run
(exit status, report on disk iff status 0).  A sample is also run through the console script in a real subprocess.
"""
from __future__ import annotations

import json
import os
import subprocess
import tempfile
from concurrent.futures import ThreadPoolExecutor

from .. import gen, runner, tracecheck
from ..common import Check, MachineryFailure, scratch_root

LEVEL = "model_checking"
RULE = ('cases = Gen_Cli.tla argument vectors (tokens x environment) through main() and the console script; every vector is non-trivial (each has its own predicted exit status and effect); distinct = distinct (tokens, env)')

TOKENS = [
    ("dir", "ok", ["{dir}"]),
    ("dir", "missing", ["{work}/no-such-dir"]),
    ("info", "list", ["--list"]),
    ("info", "describe", ["--describe"]),
    ("info", "version", ["--version"]),
    ("info", "help", ["--help"]),
    ("incl", "x", ["--codemod-include", "pixee:python/use-set-literal"]),
    ("excl", "x", ["--codemod-exclude", "pixee:python/*"]),
    ("bad", "int", ["--max-workers", "abc"]),
    ("bad", "choice", ["--output-format", "xml"]),
    ("unknown", "opt", ["--bogus-option"]),
    ("dir", "missing", ["no-such-relative-dir"]),  # any positional is the directory until one was seen; later ones are extras
    ("output", "ok", ["--output", "{out}"]),
    ("output", "noparent", ["--output", "{work}/nodir/report.codetf"]),
    ("output", "isdir", ["--output", "{res}"]),
    ("output", "devfull", ["--output", "/dev/full"]),
    ("output", "devnull", ["--output", "/dev/null"]),
    ("sarif", "ok", ["--sarif", "{res}/semgrep.sarif"]),
    ("sarif", "missing", ["--sarif", "{res}/missing.sarif"]),
    ("sarif", "dup", ["--sarif", "{res}/semgrep.sarif,{res}/semgrep2.sarif"]),
    ("sarif", "two", ["--sarif", "{res}/semgrep.sarif,{res}/codeql.sarif"]),
    ("sonar", "ok", ["--sonar-issues-json", "{res}/sonar.json"]),
    ("sonar", "missing", ["--sonar-issues-json", "{res}/missing.json"]),
    ("hotspots", "ok", ["--sonar-hotspots-json", "{res}/hotspots.json"]),
    ("hotspots", "missing", ["--sonar-hotspots-json", "{res}/missing-hotspots.json"]),
    ("dojo", "ok", ["--defectdojo-findings-json", "{res}/dojo.json"]),
    ("dojo", "missing", ["--defectdojo-findings-json", "{res}/missing-dojo.json"]),
    ("sarif", "dup", ["--sarif", "{res}/merged.sarif,{res}/codeql.sarif"]),   # a file holding runs of two tools + one of them again
    ("sarif", "dup", ["--sarif", "{res}/semgrep.sarif,{res}/merged.sarif"]),
    ("sarif", "two", ["--sarif", "{res}/merged.sarif"]),
    ("unser", "projname", ["--project-name", "caf\udce9"]),                    # os.fsdecode(b"caf\xe9"): what a non-UTF-8 argv byte becomes
    ("flag", "badline", ["--path-exclude", "x.py:abc"]),   # a pattern whose suffix is not a line number: it names nothing
    ("flag", "dry", ["--dry-run"]),
    ("flag", "workers", ["--max-workers", "2"]),
    ("flag", "pathinc", ["--path-include", "*.py"]),
    ("flag", "logjson", ["--log-format", "json"]),
    ("flag", "fmtdiff", ["--output-format", "diff"]),      # accepted choices that change nothing about the status
    ("flag", "nodry", ["--no-dry-run"]),
    ("flag", "verbose", ["--verbose"]),
    ("contrast", "ok", ["--contrast-vulnerabilities-xml", "{res}/contrast.xml"]),
    ("contrast", "missing", ["--contrast-vulnerabilities-xml", "{res}/missing-contrast.xml"]),
]
# a missing operand can only be modelled as "error when met" at the very end of argv
LAST_ONLY = [("bad", "noperand", ["--project-name"]), ("bad", "noperand2", ["--output"])]


def _sarif(tool: str) -> dict:
    return {"version": "2.1.0", "runs": [{"tool": {"driver": {"name": tool, "rules": []}}, "results": []}]}


RESFILES = {
    "semgrep.sarif": _sarif("Semgrep OSS"),
    "semgrep2.sarif": _sarif("semgrep"),
    "codeql.sarif": _sarif("CodeQL"),
    "merged.sarif": {"version": "2.1.0", "runs": _sarif("Semgrep OSS")["runs"] + _sarif("CodeQL")["runs"]},
    "sonar.json": {"issues": []},
    "hotspots.json": {"hotspots": []},
    "dojo.json": {"results": []},
    "contrast.xml": "<vulnerabilities></vulnerabilities>\n",
}

ENVS = {
    "none": [{}],
    "half": [
        {"CODEMODDER_AZURE_OPENAI_API_KEY": "k"},
        {"CODEMODDER_AZURE_OPENAI_ENDPOINT": "https://example.invalid"},
        {"CODEMODDER_AZURE_LLAMA_API_KEY": "k"},
        {"CODEMODDER_AZURE_LLAMA_ENDPOINT": "https://example.invalid"},
        # the other half exported but empty: still half a configuration
        {"CODEMODDER_AZURE_OPENAI_API_KEY": "k", "CODEMODDER_AZURE_OPENAI_ENDPOINT": ""},
        {"CODEMODDER_AZURE_LLAMA_API_KEY": "", "CODEMODDER_AZURE_LLAMA_ENDPOINT": "https://example.invalid"},
    ],
    # consistent configurations: only the Azure Llama pair can be exercised here - the installed openai client
    # cannot be constructed in this sandbox (httpx incompatibility: "unexpected keyword argument 'proxies'")
    "both": [
        {"CODEMODDER_AZURE_LLAMA_API_KEY": "k", "CODEMODDER_AZURE_LLAMA_ENDPOINT": "https://example.invalid"},
    ],
}


def _concrete(sid: str, toks: list[int], env: str, pool, pick: int) -> dict:
    argv = []
    for i in toks:
        argv += pool[i - 1][2]
    envs = ENVS[env]
    # with a single cheap codemod selected the project holds a file, so that file matching and the path patterns are exercised
    files = {"x.py": "a = 1\n"} if any(pool[i - 1][0] == "incl" for i in toks) else {}
    return {
        "id": sid,
        "files": files,
        "resfiles": RESFILES,
        "steps": [{"argv": argv, "env": envs[pick % len(envs)]}],
    }


def run(chk: Check) -> None:
    pool = TOKENS + LAST_ONLY
    n_main = len(TOKENS)
    # seeded longer sequences; the missing-operand tokens only in last position
    extra = set()
    for _ in range(chk.pick(120, 1500)):
        k = chk.rng.choice([3, 3, 4, 5])
        extra.add(tuple(chk.rng.randrange(1, n_main + 1) for _ in range(k)))
    i_incl = next(i + 1 for i, t in enumerate(TOKENS) if t[0] == "incl")
    i_out = next(i + 1 for i, t in enumerate(TOKENS) if t[:2] == ("output", "ok"))
    for i, t in enumerate(TOKENS):
        if t[0] == "flag":
            extra.add((1, i_incl, i + 1, i_out))
    for j in (n_main + 1, n_main + 2):
        extra.add((j,))
        extra.add((1, j))
        for _ in range(chk.pick(4, 30)):
            k = chk.rng.choice([1, 2, 3])
            extra.add(tuple(chk.rng.randrange(1, n_main + 1) for _ in range(k)) + (j,))
    env_seqs = {(1,), (1, 13), (1, 13, 21), (2,), (3, 1), (1, 14)}
    for _ in range(chk.pick(10, 120)):
        k = chk.rng.choice([2, 3])
        env_seqs.add(tuple(chk.rng.randrange(1, n_main + 1) for _ in range(k)))
    data = {
        "Tokens": [{"k": t[0], "v": t[1]} for t in pool],
        "MaxLen": gen.RawTla("2"),
        "EnvLen": gen.RawTla("1"),
        "ExtraSeqs": extra,
        "EnvSeqs": env_seqs,
        "DirTok": 1,
        "Interesting": {i + 1 for i, t in enumerate(TOKENS) if t[0] in ("output", "sarif", "sonar", "hotspots", "dojo", "unser", "contrast")},
    }
    # MaxLen-enumeration must not place the last-only tokens mid-sequence: restrict the enumerated pool
    data["Tokens"] = [{"k": t[0], "v": t[1]} for t in pool]
    res = gen.run_generator("Gen_Cli", "CliData", data)
    chk.add_tlc(res)
    cases = []
    for st in res.dump:
        if st["exp"]["exit"] == -1:
            continue
        toks = list(st["sc"]["toks"])
        # drop enumerated sequences with a missing-operand token that is not last (not modelled)
        if any(t > n_main for t in toks[:-1]):
            continue
        cases.append((toks, st["sc"]["env"], st["exp"]["exit"], st["exp"]["report"]))
    cases.sort(key=lambda c: (len(c[0]), c[0], c[1]))
    if chk.quick:
        # all sequences of length <= 1 and all with env; a seeded half of length 2; the seeded longer ones
        keep = []
        for c in cases:
            if len(c[0]) <= 1 or c[1] != "none" or len(c[0]) >= 3 or chk.rng.random() < 0.3:
                keep.append(c)
        cases = keep
    scenarios = []
    for k, (toks, env, exp_exit, exp_rep) in enumerate(cases):
        sc = _concrete(f"C20-{k}", toks, env, pool, k)
        sc["steps"][0]["expect"] = {"exit": exp_exit}
        sc["_meta"] = {"tokens": [f"{pool[i-1][0]}:{pool[i-1][1]}" for i in toks], "env": env, "expected": exp_exit, "report": exp_rep}
        scenarios.append(sc)
    results = runner.run_many(scenarios, chunksize=4)
    traces = [r["steps"][0]["trace"] for r in results]
    verdicts, stats = tracecheck.validate(traces, batch=1500)
    for s in stats:
        chk.add_tlc(s)
    chk.coverage["traces_validated_against_impl"] += len(traces)
    by_exit: dict[int, list] = {}
    for sc, r in zip(scenarios, results):
        st = r["steps"][0]
        m = sc["_meta"]
        chk.count()
        chk.nontrivial((tuple(m["tokens"]), m["env"]))
        by_exit.setdefault(m["expected"], []).append(sc)
        v = [c for c in verdicts[st["trace"]["id"]] if c.startswith(("RunEnd:", "inv:C20", "ReportWritten:"))]
        if m["report"] and not (st["report"] is not None):
            v.append("report-missing-after-completed-run")
        if v:
            sig = _signature(m, st["exit"])
            chk.violation(sig, f"argv tokens {m['tokens']} env={m['env']}: exit {st['exit']}, documented {m['expected']}; {sorted(set(v))}",
                          {"argv": sc["steps"][0]["argv"], "env": sc["steps"][0]["env"], "observed_exit": st["exit"], "expected_exit": m["expected"], "verdict": v, "stderr": st["stderr"][-600:]})
    # ---- the process boundary: console script in real subprocesses
    sub = []
    for code in sorted(by_exit):
        lst = by_exit[code]
        chk.rng.shuffle(lst)
        sub += lst[: chk.pick(4, 12)]
    outs = _console_runs(sub)
    for sc, (rc, rep_exists) in zip(sub, outs):
        m = sc["_meta"]
        chk.count()
        chk.nontrivial(("console", tuple(m["tokens"]), m["env"]))
        if rc != m["expected"] or (rc != 0 and rep_exists):
            chk.violation(_signature(m, rc) + "|console", f"console script with tokens {m['tokens']} env={m['env']}: exit {rc}, documented {m['expected']}, report exists={rep_exists}",
                          {"argv": sc["steps"][0]["argv"], "env": sc["steps"][0]["env"]})
    chk.coverage["console_subprocess_runs"] = len(sub)
    chk.sample({"tokens": scenarios[len(scenarios) // 3]["_meta"], "argv": scenarios[len(scenarios) // 3]["steps"][0]["argv"]})
    chk.sample({"tokens": scenarios[-1]["_meta"], "argv": scenarios[-1]["steps"][0]["argv"]})
    chk.assumptions += [
        "checks run as root: an unwritable report is produced with a missing parent directory, a directory path and /dev/full",
        "a missing option operand is only generated as the last argument (elsewhere argparse would consume the next token)",
        "where two failure classes of different status coincide the order arguments -> directory -> result files -> AI configuration -> report is used",
    ]


def _signature(m: dict, observed) -> str:
    """Failing scenarios are grouped by the condition that decides the documented status."""
    toks = m["tokens"]
    bad_out = [t for t in toks if t.startswith("output:") and t != "output:ok"]
    if m["expected"] == 2 and bad_out:
        return f"C20|unwritable-report|{bad_out[-1]}|exit={observed}"
    return f"C20|{','.join(toks)}|env={m['env']}|exit={observed}"


def _console_runs(scs: list[dict]):
    base = scratch_root()

    def one(sc):
        work = tempfile.mkdtemp(prefix="con-", dir=base)
        target = os.path.join(work, "target")
        res = os.path.join(work, "res")
        os.makedirs(target)
        os.makedirs(res)
        for name, doc in sc["resfiles"].items():
            with open(os.path.join(res, name), "w") as f:
                json.dump(doc, f)
        out = os.path.join(work, "out.codetf")
        sub = {"dir": target, "work": work, "res": res, "out": out}
        argv = []
        for a in sc["steps"][0]["argv"]:
            for k, v in sub.items():
                a = a.replace("{" + k + "}", v)
            argv.append(a)
        env = dict(os.environ)
        for k in list(env):
            if k.startswith("CODEMODDER_"):
                env.pop(k)
        env.update(sc["steps"][0]["env"])
        env["TMPDIR"] = work
        try:
            p = subprocess.run(["/venv/bin/codemodder"] + argv, capture_output=True, text=True, errors="replace", env=env, timeout=300, cwd=work)
        except subprocess.TimeoutExpired as ex:
            raise MachineryFailure(f"console run timed out: {argv}") from ex
        rep = False
        if "--output" in argv:
            o = argv[len(argv) - 1 - argv[::-1].index("--output") + 1] if argv[-1] != "--output" else None
            rep = bool(o and os.path.isfile(o) and o != "/dev/full" and os.path.getsize(o) > 0)   # an empty leftover is not a written report
        import shutil

        shutil.rmtree(work, ignore_errors=True)
        return p.returncode, rep

    with ThreadPoolExecutor(max_workers=12) as ex:
        return list(ex.map(one, scs))


def replay(data: dict) -> int:
    print(json.dumps(data, indent=1)[:4000])
    return 0
