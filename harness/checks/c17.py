"""C17 - exactly the requested codemods run, once each, in the requested order.

M2: Gen_Selection.tla enumerates include/exclude lists over a pattern pool built by rule from the registry
of the working tree, in both eligibility modes, and computes the acceptable selections with the reference
semantics of Selection.tla.  Every scenario is replayed through the real `CodemodRegistry.match_codemods`;
a sample is replayed end-to-end through `codemodder.run(argv)` and validated by Trace_Run (the queue the CLI
builds, the order in which codemods start, the report order).
"""
from __future__ import annotations

import json

from .. import gen, runner, tracecheck
from ..common import Check
from ..tlaval import cps

LEVEL = "model_checking"
RULE = ('cases = Gen_Selection.tla (include list | exclude list, SAST input kinds) over the real registry ids and glob patterns; non-trivial when the list is non-empty or a SAST input is given; distinct = distinct (label, kind, list, sast)')


def _pool_from_ids(ids: list[str]) -> list[str]:
    def has(s):
        return s if s in ids else None

    want = [
        has("pixee:python/url-sandbox"),
        has("pixee:python/sandbox-process-creation"),
        has("pixee:python/secure-random"),
        has("pixee:python/order-imports"),  # default-excluded
        has("pixee:python/use-set-literal"),
        next((i for i in ids if i.startswith("sonar:")), None),
        next((i for i in ids if i.startswith("semgrep:")), None),
        "pixee:python/does-not-exist",
        "",  # a blank entry (`--codemod-include ""`, the piece a trailing comma leaves): names nothing, the list is still given
        "pixee:python/url",  # proper prefix of an id, no wildcard
        "pixee:python/url.sandbox",  # regex metacharacter, no wildcard
        "*",
        "pixee:*",
        "sonar:*",
        "pixee:python/secure-*",
        "*sandbox",
        "*sandbox*",
        "*url-sandbox",
        "*-imports",
        "*django*",
        "*:python/secure-random",
        "pixee:*/url-sandbox",
        "zzz*",
        "pixee:python/url.sandbox*",  # `.` is not a wildcard
        "pixee:python/use-*-literal",
        "*secure-random",
        "pixee:python/*sandbox*",  # its text CONTAINS the pattern `*sandbox*`, which selects more
        "pixee:python/*secure-random",
    ]
    out = []
    for p in want:
        if p is not None and p not in out:
            out.append(p)
    return out


def _scenarios_from_dump(dump):
    for st in dump:
        if not st["exp"]:
            continue
        yield st["sc"], [list(r) for r in st["exp"]]


def _check_registry(chk: Check, registry, label: str, pool: list[str], def_exc: list[str], max_len: int, extra: list[tuple]):
    codemods = registry.codemods
    ids = [c.id for c in codemods]
    origins = [c.origin for c in codemods]
    res = gen.run_generator(
        "Gen_Selection",
        "SelData",
        {
            "RegIds": [cps(i) for i in ids],
            "RegOrigins": origins,
            "Pats": [cps(p) for p in pool],
            "DefExc": [cps(p) for p in def_exc],
            "MaxLen": max_len,
            "ExtraLists": set(extra),
        },
    )
    chk.add_tlc(res)
    cases = list(_scenarios_from_dump(res.dump))
    for sc, exp in cases:
        pats = [pool[i - 1] for i in sc["list"]]
        inc = pats if sc["kind"] == "inc" else None
        exc = pats if sc["kind"] == "exc" else None
        got = registry.match_codemods(inc, exc, sast_only=sc["sast"])
        got_idx = [ids.index(c.id) + 1 for c in got]
        chk.count()
        default_sel = {tuple(e) for e in exp}
        if any("*" in p for p in pats) or len(pats) > 1:
            chk.nontrivial((label, sc["kind"], tuple(sc["list"]), sc["sast"]))
        if got_idx not in exp:
            e0 = exp[0]
            extra_ids = [ids[i - 1] for i in got_idx if i not in e0]
            missing = [ids[i - 1] for i in e0 if i not in got_idx]
            dup = len(got_idx) != len(set(got_idx))
            kind = "duplicate" if dup and not extra_ids and not missing else ("order" if not extra_ids and not missing else "membership")
            sig = f"{label}|{sc['kind']}|{','.join(pats)}|sast={sc['sast']}"
            chk.violation(
                _classify(sig, pats, kind, extra_ids, missing),
                f"match_codemods({sc['kind']}={pats}, sast_only={sc['sast']}) on the {label} registry: "
                f"{kind} differs from reference selection; extra={extra_ids[:4]} missing={missing[:4]} "
                f"got {len(got_idx)} codemods, reference {len(e0)}",
                {"registry": label, "kind": sc["kind"], "patterns": pats, "sast": sc["sast"],
                 "observed": [ids[i - 1] for i in got_idx], "acceptable": [[ids[i - 1] for i in e] for e in exp]},
            )
        _ = default_sel
    chk.sample({"registry": label, "scenario": cases[len(cases) // 2][0], "patterns": [pool[i - 1] for i in cases[len(cases) // 2][0]["list"]]})
    return cases, ids


def _classify(sig: str, pats, kind, extra, missing) -> str:
    """Signature of a failing scenario: the scenario itself (so that a different failure is a different finding)."""
    return f"C17|{sig}|{kind}"


class _Stub:
    """Minimal codemod for the synthetic registry (the registry uses only these attributes)."""

    def __init__(self, origin, name):
        self.origin = origin
        self.name = name
        self.default_extensions = [".py"]

    @property
    def id(self):
        return f"{self.origin}:python/{self.name}"


def _synthetic_registry():
    from codemodder.registry import CodemodCollection, CodemodRegistry

    reg = CodemodRegistry()
    reg.add_codemod_collection(CodemodCollection(origin="pixee", codemods=[_Stub("pixee", n) for n in ("a", "ab", "b-a", "aab")]))
    reg.add_codemod_collection(CodemodCollection(origin="sonar", codemods=[_Stub("sonar", n) for n in ("ab", "ba")]))
    return reg


def _glob_pool():
    syms = ["a", "b", "*"]
    globs = []
    for n in (1, 2, 3):
        def rec(prefix, k):
            if k == 0:
                globs.append(prefix)
                return
            for s in syms:
                if prefix.endswith("*") and s == "*":
                    continue
                rec(prefix + s, k - 1)
        rec("", n)
    pool = ["pixee:python/" + g for g in globs] + ["*" + g for g in globs if "*" not in g[:1]][:6] + ["*:python/ab", "sonar:*"]
    out = []
    for p in pool:
        if p not in out:
            out.append(p)
    return out


def run(chk: Check) -> None:
    from codemodder import registry as reg_mod

    registry = reg_mod.load_registered_codemods()
    def_exc = list(reg_mod.DEFAULT_EXCLUDED_CODEMODS)
    pool = _pool_from_ids(registry.ids)
    n = len(pool)
    # longer lists: sampled with VERIF_SEED, expected outcome still computed by TLC
    extra = []
    for _ in range(chk.pick(60, 3000)):
        k = chk.rng.choice([3, 3, 4])
        extra.append(tuple(chk.rng.randrange(1, n + 1) for _ in range(k)))
    # a pattern whose text occurs inside an earlier one, with another entry between them (order of first occurrence)
    forced = []
    for a, x, b in (("pixee:python/*sandbox*", "pixee:python/use-set-literal", "*sandbox*"),
                    ("pixee:python/*secure-random", "pixee:python/use-set-literal", "*secure-random"),
                    ("pixee:python/secure-*", "*sandbox", "pixee:python/secure-random")):
        if all(p_ in pool for p_ in (a, x, b)):
            forced.append(tuple(pool.index(p_) + 1 for p_ in (a, x, b)))
    blank = pool.index("") + 1
    forced += [(blank,), (blank, blank)]
    extra += forced
    cases, ids = _check_registry(chk, registry, "working-tree", pool, def_exc, 2, extra)

    syn = _synthetic_registry()
    spool = _glob_pool()
    sextra = [tuple(chk.rng.randrange(1, len(spool) + 1) for _ in range(3)) for _ in range(chk.pick(40, 2000))]
    _check_registry(chk, syn, "synthetic", spool, def_exc, 2, sextra)

    # ---- end-to-end sample through the CLI, judged by Trace_Run
    e2e_n = chk.pick(24, 300)
    # prefer selections that stay cheap: at most 6 codemods selected
    cheap = [(sc, exp) for sc, exp in cases if all(len(e) <= 6 for e in exp) and sc["list"]]
    chk.rng.shuffle(cheap)
    # the eligibility mode must follow the kind of result input: default and single-exclude runs for every input kind
    modes = [(sc, exp) for sc, exp in cases if sc["kind"] == "exc" and len(sc["list"]) <= 1]
    chk.rng.shuffle(modes)
    by_inp = {}
    for sc, exp in modes:
        by_inp.setdefault((sc["inp"], len(sc["list"])), (sc, exp))
    forced_cases = [(sc, exp) for sc, exp in cases if tuple(sc["list"]) in set(forced) and (sc["kind"] == "inc" or blank in sc["list"]) and sc["inp"] == "none"]
    chosen = cheap[:e2e_n] + list(by_inp.values()) + forced_cases
    scenarios = []
    for k, (sc, exp) in enumerate(chosen):
        pats = [pool[i - 1] for i in sc["list"]]
        argv = ["{dir}", "--output", "{out}"]
        if pats:  # an empty list = the option is not given
            argv += [f"--codemod-{'include' if sc['kind'] == 'inc' else 'exclude'}", ",".join(pats)]
        resfiles = {}
        inp = sc["inp"]
        sarif = lambda tool: {"version": "2.1.0", "runs": [{"tool": {"driver": {"name": tool, "rules": []}}, "results": []}]}
        if inp in ("sonarIssues", "issuesAndHotspots"):
            resfiles["sonar.json"] = {"issues": []}
            argv += ["--sonar-issues-json", "{res}/sonar.json"]
        if inp in ("hotspotsOnly", "issuesAndHotspots"):
            resfiles["hot.json"] = {"hotspots": []}
            argv += ["--sonar-hotspots-json", "{res}/hot.json"]
        if inp == "sarifSemgrep":
            resfiles["s.sarif"] = sarif("Semgrep OSS")
            argv += ["--sarif", "{res}/s.sarif"]
        if inp == "sarifOtherTool":
            resfiles["o.sarif"] = sarif("Bandit")
            argv += ["--sarif", "{res}/o.sarif"]
        if inp == "dojoOnly":
            resfiles["dojo.json"] = {"results": []}
            argv += ["--defectdojo-findings-json", "{res}/dojo.json"]
        # the CLI removes literal duplicates from the list before the registry sees it: same reference outcome
        scenarios.append(
            {
                "id": f"C17-e2e-{k}",
                # runs of whole eligible sets use an empty project (nothing to scan, every codemod still selected and reported)
                "files": {"app.py": "import os\n\nx = set([1])\nprint(os.getcwd())\n"} if all(len(e) <= 8 for e in exp) else {},
                "resfiles": resfiles,
                "steps": [{"argv": argv, "expect": {"queues": [[ids[i - 1] for i in e] for e in exp]}, "keep_log": True}],
                "_meta": {"kind": sc["kind"], "patterns": pats, "sast": sc["sast"], "inp": sc["inp"]},
            }
        )
    results = runner.run_many(scenarios)
    traces = [r["steps"][0]["trace"] for r in results]
    verdicts, stats = tracecheck.validate(traces)
    for st in stats:
        chk.add_tlc(st, traces=0)
    chk.coverage["traces_validated_against_impl"] += len(traces)
    for scn, r in zip(scenarios, results):
        step = r["steps"][0]
        chk.count()
        meta = scn["_meta"]
        v = [c for c in verdicts[step["trace"]["id"]] if c.startswith(("Selected:", "CodemodStart:", "ReportBuilt:result-count", "ReportBuilt:selected-codemod-never-ran", "ReportBuilt:differs", "inv:C17"))]
        # progress lines must name the codemods in the order of the queue
        started = [e["c"] for e in step["trace"]["events"] if e["ev"] == "CodemodStart"]
        lines = [ln.split("running codemod ", 1)[1].strip() for ln in step["log"].splitlines() if ln.startswith("running codemod ")]
        if lines != started and "running codemod" in step["log"]:
            v.append("progress-lines-differ-from-execution-order")
        rep = step["report"]
        if rep is not None and [x["codemod"] for x in rep["results"]] != [e for e in step["trace"]["events"] if e["ev"] == "Selected"][0]["ids"]:
            v.append("report-order-differs-from-queue")
        if v:
            sig = f"C17|e2e|{meta['kind']}|{','.join(meta['patterns'])}|input={meta['inp']}|{';'.join(sorted(v))}"
            chk.violation(sig, f"CLI run with codemod-{meta['kind']}={meta['patterns']} result input={meta['inp']}: {v}",
                          {"scenario": {k: scn[k] for k in ('files', 'resfiles', 'steps')}, "verdict": v})
    if traces:
        chk.sample({"e2e_trace_events": [e["ev"] for e in traces[0]["events"]], "argv": scenarios[0]["steps"][0]["argv"]})
    chk.assumptions += [
        "the registry is the one loaded from the installed entry points of the working tree",
        "`?`/`[` are not wildcard characters in codemod ids (the statement speaks of `*` patterns only)",
        "a user exclude list may replace or extend the default exclusions (both accepted)",
    ]


def replay(data: dict) -> int:
    print(json.dumps(data, indent=1)[:3000])
    return 0
