"""C04 - --dry-run never touches the project and predicts the real run.

ProgramSpace vectors (every manifest kind, dependency-adding codemods, layouts, sequences) are run twice: with --dry-run
on the tree, and for real on a restored copy.  Trace_Run checks on the dry trace that the disk never moves (action by
action: every FileEnd / Deps event leaves the file as it was; the final snapshot equals the initial one, creations
and deletions included); for single-codemod runs the two reports must be equal apart from timing (Compare event).
"""
from __future__ import annotations

import copy
import json

from .. import runspace
from ..common import Check

LEVEL = "model_checking"
RULE = ('cases = ProgramSpace.tla run vectors with --dry-run on and off; non-trivial when the non-dry counterpart changes at least one file; distinct = distinct vectors')

CLAUSES = ("inv:C04", "FileEnd:dry-run-wrote", "Deps:dry-run-wrote", "RunEnd:tree-changed", "RunEnd:outside", "Compare:", "FileBegin:changed-behind")


def run(chk: Check) -> None:
    vectors = [v for v in runspace.enumerate_vectors(chk) if v["dryRun"]]
    # single-codemod vectors are where the report comparison applies: take them all for dependency-adding codemods
    singles = [v for v in vectors if len(v["queue"]) == 1]
    multi = [v for v in vectors if len(v["queue"]) > 1]
    sample = runspace.sample_covering(chk, singles, chk.pick(90, 700)) + runspace.sample_covering(chk, multi, chk.pick(40, 500))
    scenarios = []
    for i, v in enumerate(sample):
        steps = [{"argv": runspace.argv_for(v, dry=True), "keep_after": True},
                 {"argv": runspace.argv_for(v, dry=False), "fresh": True}]
        scenarios.append(runspace.scenario_for(v, f"C04-{i}", steps))

    # ---- manifests in every abstract state (Deps.tla) and unusual encodings: a dry run must leave them alone
    import base64

    from .. import manifests, tlc
    from . import c14

    dres = tlc.run_tlc(tlc.SPEC_DIR, "Deps", "Deps.cfg", dump=True)
    chk.add_tlc(dres)
    abstract = [st["m"] for st in dres.dump if st["st"] == "done" and all(s_ == "none" or manifests.CORPUS[k][s_] for k, s_ in st["m"].items())]
    abstract.sort(key=lambda m: json.dumps(m, sort_keys=True))
    chk.rng.shuffle(abstract)
    dep_scn = []
    for i, m in enumerate(abstract[: chk.pick(45, 500)]):
        cm = c14.CODEMODS[i % 2]
        files = {"app.py": cm["src"]}
        for k, s_ in m.items():
            if s_ != "none":
                texts = manifests.CORPUS[k][s_]
                files[k] = texts[(i // 2) % len(texts)].replace("{PKG}", cm["pkg"]).replace("{ALT}", cm["alt"])
        if i % 9 == 0:  # a requirements file as `pip freeze >` writes it under PowerShell: UTF-16 with a BOM
            files["requirements.txt"] = {"b64": base64.b64encode("requests==2.31.0\r\nflask>=2.0\r\n".encode("utf-16")).decode()}
        if i % 4 == 1:  # a file the codemod fails on: it is reported failed by the dry run and by the real run alike
            files["broken.py"] = "def broken(:\n    pass\n"
        argv = ["{dir}", "--output", "{out}", "--codemod-include", cm["id"]]
        dep_scn.append({"id": f"C04-dep-{i}", "files": files, "_v": {"program": "deps", "layout": "lf", "manifest": ",".join(f"{k}={v}" for k, v in sorted(m.items()) if v != "none"),
                                                                       "queue": [cm["id"]], "dryRun": True, "workers": 1},
                        "steps": [{"argv": argv + ["--dry-run"], "keep_after": True}, {"argv": argv, "fresh": True}]})
    scenarios += dep_scn
    # ---- other options: a RELATIVE --output, run from a working directory outside the project (the report belongs
    # there; nothing may appear or change under the target - also not a project file of the same relative name)
    from .. import space

    for i, prog in enumerate(("xml", "subprocess", "requests")):
        cid = {"xml": "pixee:python/use-defusedxml", "subprocess": "pixee:python/sandbox-process-creation", "requests": "pixee:python/requests-verify"}[prog]
        files = dict(space.project_files(prog, "lf", "requirements"))
        if i % 2 == 0:
            files["out-rel.codetf"] = '{"kept": true}\n'
        argv = ["{dir}", "--output", "out-rel.codetf", "--codemod-include", cid]
        scenarios.append({"id": f"C04-relout-{i}", "files": files,
                          "_v": {"program": prog, "layout": "lf", "manifest": "requirements+relative-output", "queue": [cid], "dryRun": True, "workers": 1},
                          "steps": [{"argv": argv + ["--dry-run"], "keep_after": True, "cwd": "{work}"}, {"argv": argv, "fresh": True, "cwd": "{work}"}]})

    def post(scn, res):
        v = scn["_v"]
        dry, real = res["steps"][0], res["steps"][1]
        if len(v["queue"]) == 1:
            a, b = runspace.norm_report(dry["report"]), runspace.norm_report(real["report"])
            dry["trace"]["events"].append({"ev": "Compare", "what": "dry-run-report-differs-from-real-run", "equal": a == b})
            if a != b:
                dry["_diff"] = _first_diff(a, b)

    for scn, res, verdicts in runspace.run_and_validate(chk, scenarios, post):
        v = scn["_v"]
        dry = res["steps"][0]
        chk.count()
        changed_in_real = bool(res["steps"][1]["changed_files"])
        if changed_in_real:
            chk.nontrivial(runspace.vkey(v))
        bad = sorted({c for c in verdicts[dry["trace"]["id"]] if c.startswith(CLAUSES)})
        if dry["changed_files"]:
            bad.append("tree-differs-after-dry-run:" + ",".join(dry["changed_files"][:3]))
        if bad:
            chk.violation(
                f"C04|{'+'.join(b.split(':')[0] + ':' + b.split(':')[1][:40] for b in bad)}|{v['manifest']}|{'>'.join(c.split('/')[-1] for c in v['queue'])}|layout={v['layout']}",
                f"{runspace.vkey(v)}: {bad} {dry.get('_diff', '')}",
                {"vector": v, "files": scn["files"], "argv": scn["steps"][0]["argv"], "verdict": bad, "report_difference": dry.get("_diff")},
            )
    chk.sample({"vector": sample[0], "steps": [s["argv"] for s in scenarios[0]["steps"]]})
    chk.assumptions += ["reports are compared after dropping run.elapsed, run.directory and run.commandLine"]


def _first_diff(a, b, path="") -> str:
    if type(a) is not type(b):
        return f"{path}: {str(a)[:80]!r} vs {str(b)[:80]!r}"
    if isinstance(a, dict):
        for k in sorted(set(a) | set(b)):
            if a.get(k) != b.get(k):
                return _first_diff(a.get(k), b.get(k), f"{path}/{k}")
    if isinstance(a, list):
        if len(a) != len(b):
            return f"{path}: {len(a)} vs {len(b)} entries"
        for i, (x, y) in enumerate(zip(a, b)):
            if x != y:
                return _first_diff(x, y, f"{path}[{i}]")
    return f"{path}: {str(a)[:120]!r} vs {str(b)[:120]!r}"


def replay(data: dict) -> int:
    print(json.dumps(data, indent=1)[:4000])
    return 0
