"""C03 - the diff in the report is exactly the change made on disk.

ProgramSpace.tla enumerates (source program with several triggers on one line/file) x layout/encoding variant x
manifests x codemod sequences of length 1..3 x dry-run; a covering sample is run through the real CLI; Trace_Run
checks at every step that each reported diff, applied by the independent applier to the content that preceded it,
gives the content found on disk (up to a final newline), that the diffs of a run compose from the original to the final
content, that a file without a changeset is byte-identical and that every changeset names a real change.
"""
from __future__ import annotations

import json

from .. import runspace
from ..common import Check

LEVEL = "model_checking"
RULE = ('cases = ProgramSpace.tla run vectors (program x layout x manifest x queue x dry-run x workers) executed through the CLI; non-trivial when the run reports at least one changeset; distinct = distinct vectors')

CLAUSES = (
    "FileEnd:diff-does-not-apply", "FileEnd:changeset-without-change", "FileEnd:new-version-without-changeset",
    "FileEnd:disk-differs-from-diff", "FileEnd:silent-write", "FileEnd:failed-file-modified",
    "Deps:diff-does-not-apply", "Deps:changeset-without-change", "Deps:disk-differs-from-diff", "Deps:more-than-one",
    "inv:C03", "RunEnd:tree-changed", "FileBegin:changed-behind",
)


def run(chk: Check) -> None:
    vectors = runspace.enumerate_vectors(chk)
    sample = runspace.sample_covering(chk, vectors, chk.pick(220, 2400))
    # a manifest that is itself a Python source with a trigger: dependency update and source rewrite hit the same file
    both = [v for v in vectors if v["manifest"] == "setuppy-trigger" and v["layout"] in ("lf", "crlf") and not v["dryRun"] and v["workers"] == 1
            and "pixee:python/use-set-literal" in v["queue"]]
    sample += [v for v in both if v not in sample][: chk.pick(24, 200)]
    # ... and the same codemod does both: the fix in setup.py needs the package that is then added to setup.py
    selfm = [v for v in vectors if v["manifest"] == "setuppy-self" and v["layout"] == "lf" and not v["dryRun"] and v["workers"] == 1
             and set(v["queue"]) & {"pixee:python/url-sandbox", "pixee:python/sandbox-process-creation", "pixee:python/use-defusedxml", "pixee:python/harden-pickle-load"}]
    selfm.sort(key=runspace.vkey)
    sample += [v for v in selfm if v not in sample][: chk.pick(16, 200)]
    # mixed line endings (first line CRLF, the rest LF): what is on disk must still be what the diff says
    mx = [v for v in vectors if v["layout"] == "mixedeol" and not v["dryRun"] and v["workers"] == 1 and len(v["queue"]) == 1]
    mx.sort(key=runspace.vkey)
    sample += [v for v in mx if v not in sample][: chk.pick(10, 80)]
    bomm = [v for v in vectors if v["manifest"] == "setuppy-bom" and v["layout"] == "lf" and not v["dryRun"] and v["workers"] == 1 and len(v["queue"]) == 1
            and v["queue"][0].split("/")[-1] in ("url-sandbox", "sandbox-process-creation", "use-defusedxml", "harden-pickle-load")]
    bomm.sort(key=runspace.vkey)
    sample += [v for v in bomm if v not in sample][: chk.pick(4, 20)]
    scenarios = [runspace.scenario_for(v, f"C03-{i}") for i, v in enumerate(sample)]
    for scn, res, verdicts in runspace.run_and_validate(chk, scenarios):
        v = scn["_v"]
        st = res["steps"][0]
        chk.count()
        if any(e["ev"] == "FileEnd" and e["o"] == "changed" for e in st["trace"]["events"]):
            chk.nontrivial(runspace.vkey(v))
        bad = sorted({c for c in verdicts[st["trace"]["id"]] if c.startswith(CLAUSES)})
        if bad:
            chk.violation(
                _sig(v, bad),
                f"{runspace.vkey(v)}: {bad}; {'; '.join(st['notes'][:3])}",
                {"vector": v, "files": scn["files"], "argv": scn["steps"][0]["argv"], "verdict": bad, "notes": st["notes"]},
            )
    chk.sample({"vector": sample[0], "argv": scenarios[0]["steps"][0]["argv"]})
    chk.sample({"vector": sample[-1]})
    chk.assumptions += [
        "patch semantics: lines are LF-delimited, CR stays inside its line; result compared up to one final newline",
        "scenarios are the ProgramSpace vectors; other programs are out of scope of this check",
    ]


def _sig(v: dict, bad: list[str]) -> str:
    """A failing scenario is identified by the layout and the pipeline step that fails (source file vs manifest kind)."""
    deps = [b for b in bad if b.startswith("Deps:")]
    src = [b for b in bad if not b.startswith("Deps:")]
    parts = []
    if src:
        parts.append(f"source|layout={v['layout']}|{'+'.join(src)}")
    if deps:
        parts.append(f"manifest={v['manifest']}|{'+'.join(deps)}")
    return "C03|" + "|".join(parts)


def replay(data: dict) -> int:
    print(json.dumps(data, indent=1)[:4000])
    return 0
