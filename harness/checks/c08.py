"""C08 - refactoring codemods preserve program behaviour.

(1) Rules decided by TLA+ (ExprRewrite.tla): the boolean folding of combine-startswith-endswith /
    combine-isinstance-issubclass and the operator table of invert-boolean-check are transcribed over a small
    expression algebra with an evaluator; MC_ExprRewrite shows that the behaviour-preserving ("repaired") rules keep
    the value and the raised exception of every expression under every assignment, and that the rules of the pinned
    commit do not.  Conformance (spec <-> code): every enumerated expression is rendered as Python, run through the
    real codemods, parsed back into the algebra and compared with the specification's prediction for the tree; the
    expressions the code actually produced are then judged by the same evaluator (Eval_Expr.tla): a rewrite that
    changes value or exception under some assignment is a violation.
(2) Observed behaviour for the other refactoring codemods: closed, deterministic programs built from the vendored
    seeds are executed before and after the rewrite in an isolated interpreter; stdout / exception type / exit
    status must agree (Compare event in the trace).
"""
from __future__ import annotations

import json
import os
import subprocess
import sys
import tempfile

from .. import expr, gen, runner, seeds, tlc, tracecheck
from ..common import Check, scratch, scratch_root

LEVEL = "model_checking"


def _mc(chk: Check, vc: str, vi: str, depth: int, sample: int, tuple_names: bool = False, dump: bool = False, seed: int = 0):
    d = scratch("expr")
    (d / "MC_ExprRewrite.tla").write_text((tlc.SPEC_DIR / "MC_ExprRewrite.tla").read_text())
    cfg = (tlc.SPEC_DIR / "MC_ExprRewrite.cfg").read_text()
    cfg = cfg.replace('VariantCombine = "repaired"', f'VariantCombine = "{vc}"').replace('VariantInvert = "repaired"', f'VariantInvert = "{vi}"')
    cfg = cfg.replace("TupleNames = FALSE", f"TupleNames = {'TRUE' if tuple_names else 'FALSE'}").replace("Depth = 2", f"Depth = {depth}").replace("SampleD = 0", f"SampleD = {sample}")
    (d / "MC_ExprRewrite.cfg").write_text(cfg)
    return tlc.run_tlc(d, "MC_ExprRewrite", "MC_ExprRewrite.cfg", cont=True, dump=dump, seed=seed, timeout=1800)


def check_rules(chk: Check) -> None:
    # ---- M1: the repaired rules preserve behaviour on the whole bounded space
    res = _mc(chk, "repaired", "repaired", 2, 0)
    chk.add_tlc(res)
    if res.violated:
        raise tlc.TlcFailure(f"the repaired rules of ExprRewrite.tla are not behaviour preserving: {res.violated[0][2][-1]}")
    # ---- conformance of the tree (combine: as pinned; invert: repaired) on depth <= 1 exhaustively + sampled depth 2
    gen_res = _mc(chk, "pinned", "repaired", 1, chk.pick(500, 6000), dump=True, seed=chk.seed + 1)
    chk.add_tlc(gen_res)
    cases = [(st["e"], st["res"]) for st in gen_res.dump if st["st"] == "done"]
    cases.sort(key=lambda c: json.dumps(expr.canon(c[0]), sort_keys=True, default=str))
    lines = []
    for i, (e, _r) in enumerate(cases):
        lines.append(f"v{i} = {expr.render(e)}")
    # one project, several files of <= 400 assignments
    files = {}
    per = 400
    for b in range(0, len(lines), per):
        files[f"exprs{b // per:02d}.py"] = "\n".join(lines[b : b + per]) + "\n"
    scn = {"id": "C08-rules", "files": files,
           "steps": [{"argv": ["{dir}", "--output", "{out}", "--codemod-include", "pixee:python/combine-startswith-endswith,pixee:python/invert-boolean-check"], "keep_after": True, "observe": True}]}
    out = runner.run_many([scn])[0]["steps"][0]
    verdicts, stats = tracecheck.validate([out["trace"]])
    for s in stats:
        chk.add_tlc(s)
    chk.coverage["traces_validated_against_impl"] += 1
    produced = {}
    for name, text in out["after"].items():
        for ln in text.split("\n"):
            if ln.startswith("v") and " = " in ln:
                k, rhs = ln.split(" = ", 1)
                produced[int(k[1:])] = rhs
    pairs, meta = [], []
    deviations = 0
    for i, (e, r) in enumerate(cases):
        chk.count()
        rhs = produced.get(i)
        if rhs is None:
            chk.violation(f"C08|rules|line-lost|{expr.render(e)}", f"the assignment of `{expr.render(e)}` disappeared from the rewritten file", {"expr": expr.render(e)})
            continue
        try:
            got = expr.parse(rhs)
        except expr.NotInAlgebra as ex:
            chk.violation(f"C08|rules|{_shape(e)}|unparseable-result", f"`{expr.render(e)}` was rewritten to `{rhs}`, which is outside the expression algebra ({ex})", {"expr": expr.render(e), "result": rhs})
            continue
        changed = expr.canon(got) != expr.canon(e)
        if changed:
            chk.nontrivial(expr.render(e))
        predicted = expr.canon(r["rw"])
        if expr.canon(got) != predicted:
            deviations += 1
        if changed:
            pairs.append((e, got))
            meta.append({"i": i, "src": expr.render(e), "out": rhs, "as_predicted": expr.canon(got) == predicted,
                         "ideal": expr.canon(got) == expr.canon(r["ideal"])})
    chk.coverage["code_deviates_from_transcription"] = deviations
    # ---- the evaluator judges what the code produced
    if pairs:
        ev = gen.run_generator("Eval_Expr", "ExprData", {"Pairs": [[a, b] for a, b in pairs]}, cfg="Eval_Expr.cfg")
        chk.add_tlc(ev)
        verdict_by_k = {st["k"]: st["verdict"] for st in ev.dump if st["st2"] == "done"}
        for k, m in enumerate(meta, 1):
            v = verdict_by_k.get(k)
            if v == "equivalent":
                continue
            e = pairs[k - 1][0]
            # the two known behaviours are recognised only when the code did exactly what the transcription of the
            # pinned rules predicts; anything else is identified by the expression itself
            if v == "differs-when-a-name-holds-a-tuple" and m["as_predicted"]:
                sig = "C08|combine|argument-name-bound-to-a-tuple"
            elif v == "differs" and m["as_predicted"] and not m["ideal"] and e["t"] == "bop" and _has_and(e):
                sig = "C08|combine|fold-into-inner-and"
            else:
                sig = f"C08|rules|{m['src']}"
            chk.violation(sig, f"`{m['src']}` is rewritten to `{m['out']}`: {v} (TLC evaluator over all assignments)", {"source": m["src"], "result": m["out"], "verdict": v})
    chk.sample({"expression": lines[len(lines) // 2], "rewritten": produced.get(len(lines) // 2)})
    if deviations:
        chk.notes["conformance"] = f"{deviations} expression(s) are rewritten differently from the transcription of the tree's rules (judged by the evaluator above)"


def _has_and(e) -> bool:
    if e["t"] == "bop":
        return e["op"] == "and" or _has_and(e["l"]) or _has_and(e["r"])
    return False


def _shape(e) -> str:
    return expr.render(e)


# ---------------------------------------------------------------------------------------------- observed behaviour
OBSERVED = [
    "pixee:python/use-generator", "pixee:python/use-set-literal", "pixee:python/use-walrus-if", "pixee:python/combine-isinstance-issubclass",
    "pixee:python/combine-startswith-endswith", "pixee:python/remove-unnecessary-f-str", "pixee:python/unused-imports", "pixee:python/order-imports",
    "pixee:python/remove-future-imports", "pixee:python/fix-deprecated-abstractproperty", "pixee:python/fix-deprecated-logging-warn", "pixee:python/lazy-logging",
    "pixee:python/invert-boolean-check", "pixee:python/fix-hasattr-call", "pixee:python/fix-file-resource-leak", "pixee:python/bad-lock-with-statement",
    "pixee:python/remove-module-global",
]

PRELUDE = '''
import builtins as _b, io as _io, logging as _logging, sys as _sys
_logging.basicConfig(stream=_sys.stdout, level=_logging.DEBUG, format="%(levelname)s:%(message)s", force=True)
class _Any:
    """stands for every free name of the snippet: callable, iterable, comparable, printable, deterministic"""
    def __init__(self, name="x"): self._n = name
    def __call__(self, *a, **k): return _Any(self._n + "()")
    def __getattr__(self, k):
        if k.startswith("__") and k.endswith("__"): raise AttributeError(k)
        return _Any(self._n + "." + k)
    def __iter__(self): return iter([1, 0, 2])
    def __bool__(self): return True
    def __repr__(self): return "<" + self._n + ">"
    def __enter__(self): return self
    def __exit__(self, *a): return False
    def __eq__(self, o): return isinstance(o, _Any) and o._n == self._n
    def __hash__(self): return hash(self._n)
    def __lt__(self, o): return False
    def __gt__(self, o): return True
    def __le__(self, o): return False
    def __ge__(self, o): return True
    def __add__(self, o): return _Any(self._n + "+")
    def __radd__(self, o): return _Any("+" + self._n)
    def __mod__(self, o): return "fmt"
    def __len__(self): return 3
    def __getitem__(self, k): return _Any(self._n + "[]")
    def __contains__(self, k): return True

# imports of modules that do not exist here resolve to a stand-in module instead of failing
import importlib.abc as _abc, importlib.machinery as _mach, types as _types
class _StandIn(_types.ModuleType):
    __path__ = []
    def __getattr__(self, k):
        if k.startswith("__") and k.endswith("__"): raise AttributeError(k)
        return _Any(self.__name__ + "." + k)
class _Finder(_abc.MetaPathFinder, _abc.Loader):
    def find_spec(self, name, path=None, target=None): return _mach.ModuleSpec(name, self, is_package=True)
    def create_module(self, spec): return _StandIn(spec.name)
    def exec_module(self, module): pass
_sys.meta_path.append(_Finder())
'''


def _driver(program: str) -> str:
    """Wrap a snippet so that it runs closed and deterministic: unknown names resolve to a stand-in object, every
    module-level name ends up printed."""
    body = "\n".join("    " + ln for ln in program.split("\n"))
    return (
        PRELUDE
        + "class _NS(dict):\n    def __missing__(self, k):\n        if hasattr(_b, k): return getattr(_b, k)\n        return _Any(k)\n"
        + f"_src = {program!r}\n"
        + "_ns = _NS()\n_ns['__name__'] = 'snippet'\n"
        + "try:\n    exec(compile(_src, 'snippet', 'exec'), _ns)\nexcept BaseException as _e:\n    print('EXC', type(_e).__name__)\n"
    )


def _execute(program: str) -> str:
    d = tempfile.mkdtemp(prefix="exec-", dir=scratch_root())
    path = os.path.join(d, "driver.py")
    with open(path, "w") as f:
        f.write(_driver(program))
    try:
        p = subprocess.run([sys.executable, "-I", "-S", path], cwd=d, capture_output=True, text=True, timeout=20, env={"PATH": "/usr/bin:/bin", "PYTHONHASHSEED": "0"})
        return f"rc={p.returncode}\n{p.stdout}"
    except subprocess.TimeoutExpired:
        return "timeout"


def check_observed(chk: Check) -> None:
    by = seeds.by_codemod(with_extra=True)
    scenarios = []
    for cid in OBSERVED:
        allc = sorted(by.get(cid, []), key=lambda s: (len(s.input), s.key))
        cands = [s for s in allc if not s.test.startswith("extra::")][: chk.pick(8, 60)] + [s for s in allc if s.test.startswith("extra::")]
        files, metas = {}, {}
        for n, s in enumerate(cands):
            if not seeds.compiles(s.input):
                continue
            files[f"p{n:03d}.py"] = s.input
            metas[f"p{n:03d}.py"] = s.key
        if files:
            scenarios.append({"id": f"C08-obs-{cid}", "files": files, "steps": [{"argv": ["{dir}", "--output", "{out}", "--codemod-include", cid], "keep_after": True}],
                              "_codemod": cid, "_metas": metas})
    results = runner.run_many(scenarios)
    from concurrent.futures import ThreadPoolExecutor

    jobs = []
    for scn, r in zip(scenarios, results):
        st = r["steps"][0]
        for rel, key in scn["_metas"].items():
            before, after = scn["files"][rel], st["after"].get(rel)
            if after is not None and after != before:
                jobs.append((scn, st, rel, key, before, after))
    with ThreadPoolExecutor(max_workers=16) as ex:
        outs = list(ex.map(lambda j: (_execute(j[4]), _execute(j[5])), jobs))
    traces = {}
    for (scn, st, rel, key, before, after), (o1, o2) in zip(jobs, outs):
        chk.count()
        if "EXC" not in o1.split("\n", 2)[1:2]:
            chk.nontrivial((scn["_codemod"], key))
        same = o1 == o2
        st["trace"]["events"].append({"ev": "Compare", "what": "rewritten-program-behaves-differently", "equal": bool(same)})
        traces[st["trace"]["id"]] = st["trace"]
        if not same:
            chk.violation(f"C08|observed|{scn['_codemod']}|{key.split('|')[-1]}",
                          f"{scn['_codemod']} on seed {key}: output before {o1[:200]!r} after {o2[:200]!r}", {"before": before, "after": after, "out_before": o1, "out_after": o2})
    if traces:
        verdicts, stats = tracecheck.validate(list(traces.values()))
        for s in stats:
            chk.add_tlc(s)
        chk.coverage["traces_validated_against_impl"] += len(traces)
    chk.coverage["programs_executed"] = len(jobs)


def run(chk: Check) -> None:
    check_rules(chk)
    check_observed(chk)
    chk.assumptions += [
        "rules: operands are small integers / tuples of them, string-typed arguments; exceptions raised by operand evaluation are not modelled",
        "observed: the repository's seed snippets run closed under a stand-in for every free name; programs outside the seeds are not covered",
    ]


def replay(data: dict) -> int:
    print(json.dumps(data, indent=1)[:4000])
    return 0
