"""C08 - refactoring codemods preserve program behaviour.

(1) Rules decided by TLA+ (ExprRewrite.tla): the boolean folding of combine-startswith-endswith /
    combine-isinstance-issubclass and the operator table of invert-boolean-check are transcribed over a small
    expression algebra with an evaluator; MC_ExprRewrite shows that the behaviour-preserving ("repaired") rules keep
    the value and the raised exception of every expression under every assignment, and that the rules of the pinned
    commit do not.  Conformance (spec <-> code): every enumerated expression is rendered as Python, run through the
    real codemods, parsed back into the algebra and compared with the specification's prediction for the tree; the
    expressions the code actually produced are then judged by the same evaluator (Eval_Expr.tla): a rewrite that
    changes value or exception under some assignment is a violation.
(2) Observed behaviour for the other refactoring codemods: closed, deterministic programs built from the vendored
    seeds are executed before and after the rewrite in an isolated interpreter; stdout / exception type / exit
    status must agree (Compare event in the trace).
"""
from __future__ import annotations

import json
import os
import subprocess
import sys
import tempfile

from .. import expr, gen, runner, seeds, tlc, tracecheck
from ..common import Check, scratch, scratch_root

LEVEL = "model_checking"
RULE = ('cases = expressions of ExprRewrite.tla run through the real codemods, seed programs executed before/after, and WithScope.tla statement orders; non-trivial when the codemod changed the expression / program; distinct = distinct rendered expressions, (codemod, seed) pairs and statement shapes')


def _mc(chk: Check, vc: str, vi: str, depth: int, sample: int, tuple_names: bool = False, dump: bool = False, seed: int = 0):
    d = scratch("expr")
    (d / "MC_ExprRewrite.tla").write_text((tlc.SPEC_DIR / "MC_ExprRewrite.tla").read_text())
    cfg = (tlc.SPEC_DIR / "MC_ExprRewrite.cfg").read_text()
    cfg = cfg.replace('VariantCombine = "repaired"', f'VariantCombine = "{vc}"').replace('VariantInvert = "repaired"', f'VariantInvert = "{vi}"')
    cfg = cfg.replace("TupleNames = FALSE", f"TupleNames = {'TRUE' if tuple_names else 'FALSE'}").replace("Depth = 2", f"Depth = {depth}").replace("SampleD = 0", f"SampleD = {sample}")
    (d / "MC_ExprRewrite.cfg").write_text(cfg)
    return tlc.run_tlc(d, "MC_ExprRewrite", "MC_ExprRewrite.cfg", cont=True, dump=dump, seed=seed, timeout=1800)


def check_rules(chk: Check) -> None:
    # ---- M1: the repaired rules preserve behaviour on the whole bounded space
    res = _mc(chk, "repaired", "repaired", 2, 0)
    chk.add_tlc(res)
    if res.violated:
        raise tlc.TlcFailure(f"the repaired rules of ExprRewrite.tla are not behaviour preserving: {res.violated[0][2][-1]}")
    # ---- conformance of the tree (combine: as pinned; invert: as in the tree) on depth <= 1 exhaustively + sampled depth 2
    gen_res = _mc(chk, "pinned", "tree", 1, chk.pick(500, 6000), dump=True, seed=chk.seed + 1)
    chk.add_tlc(gen_res)
    cases = [(st["e"], st["res"]) for st in gen_res.dump if st["st"] == "done"]
    cases.sort(key=lambda c: json.dumps(expr.canon(c[0]), sort_keys=True, default=str))
    lines = []
    for i, (e, _r) in enumerate(cases):
        lines.append(f"v{i} = {expr.render(e)}")
    # one project, several files of <= 400 assignments
    files = {}
    per = 400
    for b in range(0, len(lines), per):
        files[f"exprs{b // per:02d}.py"] = "\n".join(lines[b : b + per]) + "\n"
    scn = {"id": "C08-rules", "files": files,
           "steps": [{"argv": ["{dir}", "--output", "{out}", "--codemod-include", "pixee:python/combine-startswith-endswith,pixee:python/invert-boolean-check"], "keep_after": True, "observe": True}]}
    out = runner.run_many([scn])[0]["steps"][0]
    verdicts, stats = tracecheck.validate([out["trace"]])
    for s in stats:
        chk.add_tlc(s)
    chk.coverage["traces_validated_against_impl"] += 1
    produced = {}
    for name, text in out["after"].items():
        for ln in text.split("\n"):
            if ln.startswith("v") and " = " in ln:
                k, rhs = ln.split(" = ", 1)
                produced[int(k[1:])] = rhs
    pairs, meta = [], []
    deviations = 0
    for i, (e, r) in enumerate(cases):
        chk.count()
        rhs = produced.get(i)
        if rhs is None:
            chk.violation(f"C08|rules|line-lost|{expr.render(e)}", f"the assignment of `{expr.render(e)}` disappeared from the rewritten file", {"expr": expr.render(e)})
            continue
        try:
            got = expr.parse(rhs)
        except expr.NotInAlgebra as ex:
            chk.violation(f"C08|rules|{_shape(e)}|unparseable-result", f"`{expr.render(e)}` was rewritten to `{rhs}`, which is outside the expression algebra ({ex})", {"expr": expr.render(e), "result": rhs})
            continue
        changed = expr.canon(got) != expr.canon(e)
        if changed:
            chk.nontrivial(expr.render(e))
        predicted = expr.canon(r["rw"])
        if expr.canon(got) != predicted:
            deviations += 1
        if changed:
            pairs.append((e, got))
            meta.append({"i": i, "src": expr.render(e), "out": rhs, "as_predicted": expr.canon(got) == predicted,
                         "ideal": expr.canon(got) == expr.canon(r["ideal"])})
    chk.coverage["code_deviates_from_transcription"] = deviations
    # ---- the evaluator judges what the code produced
    if pairs:
        ev = gen.run_generator("Eval_Expr", "ExprData", {"Pairs": [[a, b] for a, b in pairs]}, cfg="Eval_Expr.cfg")
        chk.add_tlc(ev)
        verdict_by_k = {st["k"]: st["verdict"] for st in ev.dump if st["st2"] == "done"}
        for k, m in enumerate(meta, 1):
            v = verdict_by_k.get(k)
            if v == "equivalent":
                continue
            e = pairs[k - 1][0]
            # the two known behaviours are recognised only when the code did exactly what the transcription of the
            # pinned rules predicts; anything else is identified by the expression itself
            if v == "differs-when-a-name-holds-a-tuple" and m["as_predicted"]:
                sig = "C08|combine|argument-name-bound-to-a-tuple"
            elif v == "differs" and m["as_predicted"] and not m["ideal"] and e["t"] == "bop" and _has_and(e):
                sig = "C08|combine|fold-into-inner-and"
            elif v == "differs" and m["as_predicted"] and not m["ideal"] and e["t"] == "not" and e["e"]["t"] == "cmp" and e["e"]["rest"][0]["op"] == "is" and e["e"]["rest"][0]["right"]["k"] == "blit":
                sig = "C08|invert|not-x-is-True-or-False-with-a-non-bool-x"
            else:
                sig = f"C08|rules|{m['src']}"
            chk.violation(sig, f"`{m['src']}` is rewritten to `{m['out']}`: {v} (TLC evaluator over all assignments)", {"source": m["src"], "result": m["out"], "verdict": v})
    chk.sample({"expression": lines[len(lines) // 2], "rewritten": produced.get(len(lines) // 2)})
    if deviations:
        chk.notes["conformance"] = f"{deviations} expression(s) are rewritten differently from the transcription of the tree's rules (judged by the evaluator above)"


def _has_and(e) -> bool:
    if e["t"] == "bop":
        return e["op"] == "and" or _has_and(e["l"]) or _has_and(e["r"])
    return False


def _shape(e) -> str:
    return expr.render(e)


# ---------------------------------------------------------------------------------------------- observed behaviour
OBSERVED = [
    "pixee:python/use-generator", "pixee:python/use-set-literal", "pixee:python/use-walrus-if", "pixee:python/combine-isinstance-issubclass",
    "pixee:python/combine-startswith-endswith", "pixee:python/remove-unnecessary-f-str", "pixee:python/unused-imports", "pixee:python/order-imports",
    "pixee:python/remove-future-imports", "pixee:python/fix-deprecated-abstractproperty", "pixee:python/fix-deprecated-logging-warn", "pixee:python/lazy-logging",
    "pixee:python/invert-boolean-check", "pixee:python/fix-hasattr-call", "pixee:python/fix-file-resource-leak", "pixee:python/bad-lock-with-statement",
    "pixee:python/remove-module-global",
]

PRELUDE = '''
import builtins as _b, io as _io, logging as _logging, sys as _sys
_logging.basicConfig(stream=_sys.stdout, level=_logging.DEBUG, format="%(levelname)s:%(message)s", force=True)
class _Any:
    """stands for every free name of the snippet: callable, iterable, comparable, printable, deterministic"""
    def __init__(self, name="x"): self._n = name
    def __call__(self, *a, **k): return _Any(self._n + "()")
    def __getattr__(self, k):
        if k.startswith("__") and k.endswith("__"): raise AttributeError(k)
        return _Any(self._n + "." + k)
    def __iter__(self): return iter([1, 0, 2])
    def __bool__(self): return True
    def __repr__(self): return "<" + self._n + ">"
    def __enter__(self): return self
    def __exit__(self, *a): return False
    def __eq__(self, o): return isinstance(o, _Any) and o._n == self._n
    def __hash__(self): return hash(self._n)
    def __lt__(self, o): return False
    def __gt__(self, o): return True
    def __le__(self, o): return False
    def __ge__(self, o): return True
    def __add__(self, o): return _Any(self._n + "+")
    def __radd__(self, o): return _Any("+" + self._n)
    def __mod__(self, o): return "fmt"
    def __len__(self): return 3
    def __getitem__(self, k): return _Any(self._n + "[]")
    def __contains__(self, k): return True

# imports of modules that do not exist here resolve to a stand-in module instead of failing
import importlib.abc as _abc, importlib.machinery as _mach, types as _types
class _StandIn(_types.ModuleType):
    __path__ = []
    def __getattr__(self, k):
        if k.startswith("__") and k.endswith("__"): raise AttributeError(k)
        return _Any(self.__name__ + "." + k)
class _Finder(_abc.MetaPathFinder, _abc.Loader):
    def find_spec(self, name, path=None, target=None): return _mach.ModuleSpec(name, self, is_package=True)
    def create_module(self, spec): return _StandIn(spec.name)
    def exec_module(self, module): pass
_sys.meta_path.append(_Finder())
'''


def _driver(program: str) -> str:
    """Wrap a snippet so that it runs closed and deterministic: unknown names resolve to a stand-in object, every
    module-level name ends up printed."""
    body = "\n".join("    " + ln for ln in program.split("\n"))
    return (
        PRELUDE
        + "class _NS(dict):\n    def __missing__(self, k):\n        if hasattr(_b, k): return getattr(_b, k)\n        return _Any(k)\n"
        + f"_src = {program!r}\n"
        + "_ns = _NS()\n_ns['__name__'] = 'snippet'\n"
        + "try:\n    exec(compile(_src, 'snippet', 'exec'), _ns)\nexcept BaseException as _e:\n    print('EXC', type(_e).__name__)\n"
    )


def _execute(program: str) -> str:
    d = tempfile.mkdtemp(prefix="exec-", dir=scratch_root())
    path = os.path.join(d, "driver.py")
    with open(path, "w") as f:
        f.write(_driver(program))
    try:
        p = subprocess.run([sys.executable, "-I", "-S", path], cwd=d, capture_output=True, text=True, timeout=20, env={"PATH": "/usr/bin:/bin", "PYTHONHASHSEED": "0"})
        return f"rc={p.returncode}\n{p.stdout}"
    except subprocess.TimeoutExpired:
        return "timeout"


def check_observed(chk: Check) -> None:
    by = seeds.by_codemod(with_extra=True)
    scenarios = []
    for cid in OBSERVED:
        allc = sorted(by.get(cid, []), key=lambda s: (len(s.input), s.key))
        cands = [s for s in allc if not s.test.startswith("extra::")][: chk.pick(8, 60)] + [s for s in allc if s.test.startswith("extra::")]
        files, metas = {}, {}
        for n, s in enumerate(cands):
            if not seeds.compiles(s.input):
                continue
            files[f"p{n:03d}.py"] = s.input
            metas[f"p{n:03d}.py"] = s.key
        if files:
            scenarios.append({"id": f"C08-obs-{cid}", "files": files, "steps": [{"argv": ["{dir}", "--output", "{out}", "--codemod-include", cid], "keep_after": True}],
                              "_codemod": cid, "_metas": metas})
    results = runner.run_many(scenarios)
    from concurrent.futures import ThreadPoolExecutor

    jobs = []
    for scn, r in zip(scenarios, results):
        st = r["steps"][0]
        for rel, key in scn["_metas"].items():
            before, after = scn["files"][rel], st["after"].get(rel)
            if after is not None and after != before:
                jobs.append((scn, st, rel, key, before, after))
    with ThreadPoolExecutor(max_workers=16) as ex:
        outs = list(ex.map(lambda j: (_execute(j[4]), _execute(j[5])), jobs))
    traces = {}
    for (scn, st, rel, key, before, after), (o1, o2) in zip(jobs, outs):
        chk.count()
        if "EXC" not in o1.split("\n", 2)[1:2]:
            chk.nontrivial((scn["_codemod"], key))
        same = o1 == o2
        st["trace"]["events"].append({"ev": "Compare", "what": "rewritten-program-behaves-differently", "equal": bool(same)})
        traces[st["trace"]["id"]] = st["trace"]
        if not same:
            chk.violation(f"C08|observed|{scn['_codemod']}|{key.split('|')[-1]}",
                          f"{scn['_codemod']} on seed {key}: output before {o1[:200]!r} after {o2[:200]!r}", {"before": before, "after": after, "out_before": o1, "out_after": o2})
    if traces:
        verdicts, stats = tracecheck.validate(list(traces.values()))
        for s in stats:
            chk.add_tlc(s)
        chk.coverage["traces_validated_against_impl"] += len(traces)
    chk.coverage["programs_executed"] = len(jobs)


# ---------------------------------------------------------------------------------------------- `with` wrapping
def _render_scope(p) -> str:
    lines = ["import pathlib", 'pathlib.Path("data.txt").write_text("l1\\nl2\\nl3\\nl4\\nl5\\n")', 'f = open("data.txt")']
    for s in p:
        if s["k"] == "alias":
            lines.append(f"{s['new']} = {s['old']}")
        elif s["k"] == "use":
            lines.append(f"print({s['n']}.readline().strip())")
        elif s["k"] == "ifuse":
            lines += ["if len(__name__) > 0:", f"    print({s['n']}.readline().strip())"]
        else:
            lines.append('print("mid")')
    lines.append('print("end")')
    return "\n".join(lines) + "\n"


def _block_extent(text: str, nstmts: int):
    """Number of the program's statements s1..sn that the rewritten text holds inside `with open("data.txt") ...`;
    None when there is no such block."""
    import ast

    tree = ast.parse(text)
    for i, node in enumerate(tree.body):
        if isinstance(node, ast.With) and any(isinstance(it.context_expr, ast.Call) and getattr(it.context_expr.func, "id", "") == "open" for it in node.items):
            after = len(tree.body) - i - 1  # statements left behind the block, the final print("end") among them
            return nstmts - (after - 1)
    return None


def _expected_stdout(out) -> str:
    toks = []
    for t in out:
        if t == "end":
            toks.append("end")
        elif t == "mid":
            toks.append("mid")
        elif t == "ValueError":
            toks.append("EXC ValueError")
        else:
            toks.append(f"l{t[1]}")
    return "rc=0\n" + "".join(x + "\n" for x in toks)


def check_with_scope(chk: Check) -> None:
    """WithScope.tla: the family of alias / read orders after `f = open(...)`; TLC decides which block extents
    preserve behaviour, the real codemod's block is measured against that and both programs are executed."""
    from concurrent.futures import ThreadPoolExecutor

    res = gen.run_generator("WithScope", None, None, cfg="WithScope.cfg")
    chk.add_tlc(res)
    progs = [(st["p"], st["exp"]) for st in res.dump if st["st"] == "done"]
    progs.sort(key=lambda x: json.dumps(expr.canon(x[0]), sort_keys=True, default=str))
    import random

    rnd = random.Random(chk.seed)
    n = chk.pick(220, len(progs))
    if n < len(progs):
        # every program of <= 3 statements, a seeded sample of the longer ones
        short = [x for x in progs if len(x[0]) <= 3]
        longer = [x for x in progs if len(x[0]) > 3]
        progs = short + rnd.sample(longer, max(0, min(len(longer), n - len(short))))
    files = {f"w{i:04d}.py": _render_scope(p) for i, (p, _e) in enumerate(progs)}
    names = sorted(files)
    per = max(1, (len(names) + 15) // 16)
    scns = [{"id": f"C08-withscope-{b // per}", "files": {r: files[r] for r in names[b : b + per]},
             "steps": [{"argv": ["{dir}", "--output", "{out}", "--codemod-include", "pixee:python/fix-file-resource-leak"], "keep_after": True}]}
            for b in range(0, len(names), per)]
    sts = [r["steps"][0] for r in runner.run_many(scns)]
    after_all = {}
    for st_ in sts:
        after_all.update(st_["after"])
    jobs = []
    for i, (p, e) in enumerate(progs):
        rel = f"w{i:04d}.py"
        before, after = files[rel], after_all.get(rel, files[rel])
        jobs.append((p, e, before, after))
    with ThreadPoolExecutor(max_workers=16) as ex:
        outs = list(ex.map(lambda j: (_execute(j[2]), _execute(j[3]) if j[3] != j[2] else None), jobs))
    all_same = True
    rewritten = 0
    for (p, e, before, after), (o1, o2) in zip(jobs, outs):
        chk.count()
        shape = " ; ".join(s["k"] + ":" + (s.get("n") or (s.get("new", "") + "=" + s.get("old", ""))) for s in p)
        if o1 != _expected_stdout(e["out"]):
            raise tlc.TlcFailure(f"WithScope.tla's execution of [{shape}] is {_expected_stdout(e['out'])!r} but Python prints {o1!r}: the model of the statements is wrong")
        if after == before:
            continue
        rewritten += 1
        chk.nontrivial(shape)
        try:
            extent = _block_extent(after, len(p))
        except SyntaxError:
            extent = None
        if extent is not None and extent < e["minEnd"]:
            all_same = False
            chk.violation(f"C08|withscope|extent|{shape}", f"fix-file-resource-leak closes the file after statement {extent} of [{shape}] although statement {e['minEnd']} still reads it "
                          f"(WithScope.tla: C08_ExtentPreservesIffCoversLastRead)", {"before": before, "after": after, "extent": extent, "minEnd": e["minEnd"]})
        elif o2 != o1:
            all_same = False
            chk.violation(f"C08|withscope|observed|{shape}", f"fix-file-resource-leak on [{shape}]: output before {o1!r} after {o2!r}", {"before": before, "after": after, "out_before": o1, "out_after": o2})
    sts[0]["trace"]["events"].append({"ev": "Compare", "what": "rewritten-program-behaves-differently", "equal": all_same})
    verdicts, stats = tracecheck.validate([st_["trace"] for st_ in sts])
    for s in stats:
        chk.add_tlc(s)
    chk.coverage["traces_validated_against_impl"] += len(sts)
    chk.coverage["with_scope_programs"] = len(progs)
    chk.coverage["with_scope_rewritten"] = rewritten


# ---------------------------------------------------------------------------------------------- SQL parameterization
SQL_FORMS = ["concat", "assigned", "fstring", "percent"]
_ROWS = None


def _sql_rows():
    global _ROWS
    if _ROWS is None:
        import itertools

        ks = [""] + ["".join(t) for n in (1, 2, 3) for t in itertools.product("ab{}%", repeat=n)]
        _ROWS = [(k, 1 + (i % 2), f"r{i}") for i, k in enumerate(ks)]
    return _ROWS


def _sql_program(pieces, form: str):
    """(program text, hole names in order) for the query built from `pieces` in the given Python form; None when
    the form does not apply."""
    holes, parts = [], []
    for pc in pieces:
        if pc["lit"]:
            parts.append(("lit", "".join(a["s"] for a in pc["atoms"])))
        else:
            a = pc["atoms"][0]
            name = f"h{a['c']}_{a['tag']}"
            holes.append((name, a))
            parts.append(("hole", name))
    if form in ("concat", "assigned"):
        expr_ = " + ".join(repr(t) if k == "lit" else t for k, t in parts)
        # repr() picks double quotes for text holding a single quote
    elif form == "fstring":
        body = "".join(t.replace("{", "{{").replace("}", "}}") if k == "lit" else "{" + t + "}" for k, t in parts)
        expr_ = 'f"' + body + '"'
    elif form == "percent":
        if not holes:
            return None
        body = "".join(t.replace("%", "%%") if k == "lit" else "%s" for k, t in parts)
        names = ", ".join(n for n, _a in holes)
        expr_ = '"' + body + '" % (' + names + ("," if len(holes) == 1 else "") + ")"
    else:
        raise ValueError(form)
    args = "".join(", " + n for n, _a in holes)
    lines = ["import sqlite3", "", "", f"def lookup(cur{args}):"]
    if form == "assigned":
        lines += [f"    sql = {expr_}", "    cur.execute(sql)"]
    else:
        lines += [f"    cur.execute({expr_})"]
    lines += ["    return cur.fetchall()", "", "",
              'conn = sqlite3.connect(":memory:")', "c0 = conn.cursor()",
              'c0.executescript("CREATE TABLE t (k TEXT, n INTEGER, v TEXT)")',
              f"c0.executemany('INSERT INTO t VALUES (?, ?, ?)', {_sql_rows()!r})"]
    for val_q, val_b in (("b", "1"), ("ab", "2")):
        vals = ", ".join(repr(val_b if a["tag"] == "1" and not _quoted_hole(pieces, a) else val_q) for _n, a in holes)
        lines.append(f"print(sorted(lookup(conn.cursor(){', ' if vals else ''}{vals})))")
    return "\n".join(lines) + "\n", [n for n, _a in holes]


def _quoted_hole(pieces, atom) -> bool:
    """is the hole inside a quoted value (quote parity of the flat atom sequence before it)?"""
    n = 0
    for pc in pieces:
        for a in pc["atoms"]:
            if a is atom:
                return n % 2 == 1
            if a["k"] == "q":
                n += 1
    return False


def _execute_args(text: str):
    """(number of `?` in the string literals of lookup's execute call, arity of its parameter tuple)"""
    import ast

    tree = ast.parse(text)
    fn = next(n for n in tree.body if isinstance(n, ast.FunctionDef) and n.name == "lookup")
    call = next(n for n in ast.walk(fn) if isinstance(n, ast.Call) and isinstance(n.func, ast.Attribute) and n.func.attr == "execute")
    marks = sum(c.value.count("?") for n in ast.walk(fn) for c in [n] if isinstance(c, ast.Constant) and isinstance(c.value, str))
    arity = len(call.args[1].elts) if len(call.args) > 1 and isinstance(call.args[1], ast.Tuple) else (0 if len(call.args) < 2 else -1)
    return marks, arity


def check_sql(chk: Check) -> None:
    """SqlParam.tla: queries x piece layouts; TLC decides that the piece-level rule of the codemod finds complete
    quoted values only; every query is rendered in several Python forms, rewritten by the real codemod, compared
    with the transcription and executed on sqlite3 before and after."""
    import random
    from concurrent.futures import ThreadPoolExecutor

    # longer queries than the exhaustive family holds (5..7 conditions), sampled with the seed
    rnd0 = random.Random(chk.seed + 21)
    vals = [{"q": True, "items": tuple(it)} for it in ((), ("a",), ("h",), ("a", "h"), ("h", "a"), ("h", "h"))] + [{"q": False, "items": ("h",)}]
    extra_q = set()
    for _ in range(chk.pick(40, 400)):
        q = tuple(rnd0.choice(vals) for _ in range(rnd0.choice((5, 6, 7))))
        extra_q.add(gen.RawTla("<<" + ", ".join(f'[q |-> {"TRUE" if v["q"] else "FALSE"}, items |-> <<{", ".join(chr(34) + x + chr(34) for x in v["items"])}>>]' for v in q) + ">>"))
    # ... and every sequence of 5..7 conditions over {'h', 'a', bare hole} (quick: a sample): which quote opens and which
    # closes depends on the whole history of pieces
    import itertools

    v3 = ['[q |-> TRUE, items |-> <<"h">>]', '[q |-> TRUE, items |-> <<"a">>]', '[q |-> FALSE, items |-> <<"h">>]']
    seqs = [gen.RawTla("<<" + ", ".join(c) + ">>") for n_ in (5, 6, 7) for c in itertools.product(v3, repeat=n_)]
    if chk.quick:
        seqs = rnd0.sample(seqs, 300)
    extra_q.update(seqs)
    res = gen.run_generator("SqlParam", "SqlData", {"ExtraQueries": gen.RawTla("{" + ", ".join(sorted(extra_q)) + "}")}, cfg="SqlParamGen.cfg")
    chk.add_tlc(res)
    cases = [(st["qy"], st["mode"], st["exp"], st["tc"]) for st in res.dump if st["st"] == "done"]
    cases.sort(key=lambda x: json.dumps(expr.canon([x[0], x[1], x[3]]), sort_keys=True, default=str))
    rnd = random.Random(chk.seed + 8)
    progs = []
    for qy, mode, e, tc in cases:
        for form in SQL_FORMS:
            if form in ("fstring", "percent") and mode != "none":
                continue  # one literal: the cut of the text between holes does not exist in these forms
            built = _sql_program(e["pieces"], form)
            if built is None:
                continue
            progs.append((qy, mode, form, e, built[0], tc))
    n = chk.pick(520, len(progs))
    if n < len(progs):
        one = [x for x in progs if (len(x[0]) == 1 and (x[5] == "a" or x[1] == "none")) or (len(x[0]) >= 5 and x[5] == "a" and x[1] == "none" and x[2] == "concat")]
        two = [x for x in progs if x not in one]
        progs = one + rnd.sample(two, max(0, min(len(two), n - len(one))))
    files = {f"q{i:04d}.py": pr[4] for i, pr in enumerate(progs)}
    names = sorted(files)
    per = max(1, (len(names) + 15) // 16)
    scns = [{"id": f"C08-sql-{b // per}", "files": {r: files[r] for r in names[b : b + per]},
             "steps": [{"argv": ["{dir}", "--output", "{out}", "--codemod-include", "pixee:python/sql-parameterization"], "keep_after": True}]}
            for b in range(0, len(names), per)]
    sts = [r["steps"][0] for r in runner.run_many(scns)]
    after_all = {}
    for st_ in sts:
        after_all.update(st_["after"])
    jobs = []
    for i, pr in enumerate(progs):
        rel = f"q{i:04d}.py"
        jobs.append((pr, files[rel], after_all.get(rel, files[rel])))
    with ThreadPoolExecutor(max_workers=16) as ex:
        outs = list(ex.map(lambda j: (_execute(j[1]), _execute(j[2]) if j[2] != j[1] else None), jobs))
    all_same = True
    rewritten = deviates = 0
    for ((qy, mode, form, e, _t, tc), before, after), (o1, o2) in zip(jobs, outs):
        chk.count()
        shape = f"{form}/{mode}/" + " OR ".join(("'" + "".join(v["items"]).replace("a", tc) + "'") if v["q"] else "h" for v in qy)
        if "EXC" in o1 or not o1.startswith("rc=0"):
            raise tlc.TlcFailure(f"the generated SQL program [{shape}] does not run: {o1[:300]}")
        if after == before:
            if e["found"]:
                deviates += 1
            continue
        rewritten += 1
        chk.nontrivial(shape)
        try:
            marks, arity = _execute_args(after)
        except Exception:  # noqa: BLE001
            marks = arity = -2
        if (marks, arity) != (len(e["found"]), len(e["found"])):
            deviates += 1
        if o2 != o1:
            all_same = False
            chk.violation(f"C08|sql|{shape}", f"sql-parameterization on [{shape}]: rows before {o1[:200]!r} after {o2[:200]!r} ({marks} placeholders, {arity} parameters; "
                          f"SqlParam.tla finds {len(e['found'])})", {"before": before, "after": after, "out_before": o1, "out_after": o2})
    sts[0]["trace"]["events"].append({"ev": "Compare", "what": "rewritten-program-behaves-differently", "equal": all_same})
    verdicts, stats = tracecheck.validate([st_["trace"] for st_ in sts])
    for s_ in stats:
        chk.add_tlc(s_)
    chk.coverage["traces_validated_against_impl"] += len(sts)
    chk.coverage["sql_programs"] = len(progs)
    chk.coverage["sql_rewritten"] = rewritten
    chk.coverage["sql_code_deviates_from_transcription"] = deviates
    if progs:
        chk.sample({"sql_program": progs[len(progs) // 2][4]})


# ---------------------------------------------------------------------------------------------- use-walrus-if
def _walrus_program(p) -> str:
    val = {"zero": "0", "one": "1", "none": "None"}[p["value"]]
    test = {"name": "x", "not": "not x", "isnone": "x is None", "eq": "x == 1", "ne": "x != 1"}[p["test"]]
    reads = set(p["reads"])
    rhs = "compute()" if p.get("vkind", "atom") == "atom" else "compute() or fallback()"
    core = [f"x = {rhs}", f"if {test}:",
            '    print("body", x)' if "body" in reads else '    print("body")',
            "else:",
            '    print("else", x)' if "else" in reads else '    print("else")']
    if "after" in reads:
        core.append('print("after", x)')
    if "nested" in reads:
        core += ["def reader():", "    return x", 'print("nested", reader())']
    if "aug" in reads:
        core.append("x += 1")
    head = ["def compute():", '    print("compute")', f"    return {val}", "", "", "def fallback():", '    print("fallback")', f"    return {val}", "", ""]

    def ind(lines, n=1):
        return [("    " * n + ln) for ln in lines]

    sc = p["scope"]
    if sc == "module":
        body = core
    elif sc == "function":
        body = ["def f():"] + ind(core) + ["", "", "f()"]
    elif sc == "global":
        body = ["x = -1", "", "", "def f():", "    global x"] + ind(core) + ["", "", "f()"] + (['print("outside", x)'] if "outside" in reads else [])
    elif sc == "nonlocal":
        body = (["def outer():", "    x = -1", "", "    def inner():", "        nonlocal x"] + ind(core, 2) + ["", "    inner()"]
                + (['    print("outside", x)'] if "outside" in reads else []) + ["", "", "outer()"])
    else:
        body = ["class K:"] + ind(core) + ["", ""] + (['print("outside", K.x)'] if "outside" in reads else ['print("defined", K.__name__)'])
    return "\n".join(head + body) + "\n"


def check_walrus(chk: Check) -> None:
    """WalrusIf.tla: where the `x = v; if <test on x>` construct stands and who reads x afterwards; TLC decides that
    the rule which drops the binding drops unread bindings only; the real codemod is compared with the rule and both
    programs are executed."""
    import random
    from concurrent.futures import ThreadPoolExecutor

    res = gen.run_generator("WalrusIf", None, None, cfg="WalrusIf.cfg")
    chk.add_tlc(res)
    cases = [(st["p"], st["exp"]) for st in res.dump if st["st"] == "done"]
    cases.sort(key=lambda x: json.dumps(expr.canon(x[0]), sort_keys=True, default=sorted))
    for c in cases:
        c[0]["reads"] = sorted(c[0]["reads"])
    n = chk.pick(200, len(cases))
    if n < len(cases):
        # the boundary of the rule (nobody, or exactly one kind of reader) for one test form, and a seeded sample of the rest
        edge = [c for c in cases if len(c[0]["reads"]) <= 1 and c[0]["test"] == "name" and c[0].get("vkind", "atom") == "atom"]
        rest = [c for c in cases if c not in edge]
        cases = edge + random.Random(chk.seed + 3).sample(rest, max(0, n - len(edge)))
    files = {f"u{i:04d}.py": _walrus_program(p) for i, (p, _e) in enumerate(cases)}
    names = sorted(files)
    per = max(1, (len(names) + 15) // 16)
    scns = [{"id": f"C08-walrus-{b // per}", "files": {r: files[r] for r in names[b : b + per]},
             "steps": [{"argv": ["{dir}", "--output", "{out}", "--codemod-include", "pixee:python/use-walrus-if"], "keep_after": True}]}
            for b in range(0, len(names), per)]
    sts = [r["steps"][0] for r in runner.run_many(scns)]
    after_all = {}
    for st_ in sts:
        after_all.update(st_["after"])
    jobs = [(p, e, files[f"u{i:04d}.py"], after_all.get(f"u{i:04d}.py", files[f"u{i:04d}.py"])) for i, (p, e) in enumerate(cases)]
    with ThreadPoolExecutor(max_workers=16) as ex:
        outs = list(ex.map(lambda j: (_execute(j[2]), _execute(j[3]) if j[3] != j[2] else None), jobs))
    all_same, deviates, rewritten = True, 0, 0
    for (p, e, before, after), (o1, o2) in zip(jobs, outs):
        chk.count()
        shape = f"{p['scope']}/{p['test']}/{p['value']}/{p.get('vkind', 'atom')}/reads={'+'.join(p['reads']) or 'none'}"
        if "EXC" in o1:
            raise tlc.TlcFailure(f"the generated walrus program [{shape}] does not run: {o1[:300]}")
        if after == before:
            continue
        rewritten += 1
        chk.nontrivial(shape)
        dropped = "x :=" not in after and "x = compute()" not in after
        if dropped != bool(e["drops"]):
            deviates += 1
        if o2 != o1:
            all_same = False
            chk.violation(f"C08|walrus|{shape}", f"use-walrus-if on [{shape}] ({'binding dropped' if dropped else 'walrus'}; WalrusIf.tla says "
                          f"{'drop' if e['drops'] else 'keep'}): output before {o1!r} after {o2!r}", {"before": before, "after": after, "out_before": o1, "out_after": o2})
    sts[0]["trace"]["events"].append({"ev": "Compare", "what": "rewritten-program-behaves-differently", "equal": all_same})
    verdicts, stats = tracecheck.validate([st_["trace"] for st_ in sts])
    for s_ in stats:
        chk.add_tlc(s_)
    chk.coverage["traces_validated_against_impl"] += len(sts)
    chk.coverage["walrus_programs"] = len(cases)
    chk.coverage["walrus_rewritten"] = rewritten
    chk.coverage["walrus_code_deviates_from_rule"] = deviates


def run(chk: Check) -> None:
    check_rules(chk)
    check_observed(chk)
    check_with_scope(chk)
    check_sql(chk)
    check_walrus(chk)
    chk.assumptions += [
        "rules: operands are small integers / tuples of them, string-typed arguments; exceptions raised by operand evaluation are not modelled",
        "observed: the repository's seed snippets run closed under a stand-in for every free name; programs outside the seeds are not covered",
    ]


def replay(data: dict) -> int:
    print(json.dumps(data, indent=1)[:4000])
    return 0
