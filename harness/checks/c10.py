"""C10 - an unprocessable file is left intact, reported, and does not stop the run.

Faults.tla enumerates fault placements (kind x codemod x file, one or two faults) for each pipeline kind
(detector-less, rule-detected with the real semgrep, Sonar-driven) and derives what each placement demands: which
(codemod, file) steps must be reported failed, which files must keep their bytes.  Each faulty run is paired with
its fault-free twin; Trace_Run checks the faulty trace step by step (failed file untouched, failure and unfixed
findings reported, no exception escapes, report built, exit 0) and the harness adds Compare events for the
untouched-by-the-fault part: every other file ends with the same content and every codemod reports the same
changes for the other files as in the twin run.  MC_Run checks termination and C10_FailedUntouched on the design.
"""
from __future__ import annotations

import base64
import json

from .. import runner, tlc, tracecheck
from ..common import Check, scratch

LEVEL = "fault_enumeration"
RULE = ('cases = Faults.tla (pipeline kind, fault set) scenarios: fault kind x position x file over 4 pipelines; non-trivial when at least one fault is injected and at least one other file is processed; distinct = distinct (pipeline, fault set)')

PIPES = {
    "plain": {
        "good": "x = set([1, 2])\nassert (1, 'two')\ny = set([3])\nassert (2, 'three')\n",
        "queue": ["pixee:python/use-set-literal", "pixee:python/fix-assert-tuple"],
    },
    "semgrep": {
        "good": 'import requests\n\nrequests.get("http://example.com", verify=False)\n',
        "queue": ["pixee:python/requests-verify", "pixee:python/add-requests-timeouts"],
    },
    "sast": {
        "good": "import random\n\nrandom.random()\nvalues = set([3])\nrandom.randint(0, 9)\nother = set([4, 5])\n",
        "queue": ["sonar:python/secure-random", "pixee:python/use-set-literal"],
    },
    # a Sonar-driven transformer that records its changes node by node (two findings per file)
    "sast2": {
        "good": "assert (1,2,3)\nx = set([1])\nassert (4,5,6)\ny = 2\n",
        "queue": ["sonar:python/fix-assert-tuple", "pixee:python/use-set-literal"],
    },
    # a DefectDojo-driven pipeline of two transformers: the first rewrites yaml.load, the second pickle.load
    "multi": {
        "good": "import pickle\nimport yaml\n\ndata = yaml.load(open('a.yml'))\nobj = pickle.load(open('b.bin', 'rb'))\nvalues = set([3])\n",
        "queue": ["defectdojo:python/avoid-insecure-deserialization", "pixee:python/use-set-literal"],
    },
    "late": {
        "good": "names = ['a', 'b']\nassert (1, 'two')\nz = len(names)\nassert (2, 'three')\n",
        "queue": ["pixee:python/use-set-literal", "pixee:python/fix-assert-tuple"],
    },
}
DOJO_RULE = "python.django.security.audit.avoid-insecure-deserialization.avoid-insecure-deserialization"
FILES = ["a.py", "pkg/b.py", "pkg/sub/c.py"]


def _b(data: bytes) -> dict:
    return {"b64": base64.b64encode(data).decode()}


def bad_content(kind: str, good: str):
    if kind == "badutf8":
        return _b(good.encode() + b"\xff\xfe = 1\n")
    if kind == "badutf8comment":
        return _b(good.encode() + b"# caf\xe9 \xa9 legacy comment\n")
    if kind == "nul":
        return _b(good.encode() + b"y = '\x00'\n\x00\n")
    if kind == "syntax":
        return good + "def broken(:\n    pass\n"
    if kind == "empty":
        return ""
    raise ValueError(kind)


def sonar_doc(pipe="sast"):
    out = []
    if pipe == "sast2":
        for i, p in enumerate(FILES):
            for j, line in enumerate((1, 3)):
                out.append({"rule": "python:S5905", "status": "OPEN", "component": f"proj:{p}", "key": f"t{i}{j}", "message": "m",
                            "textRange": {"startLine": line, "endLine": line, "startOffset": 8, "endOffset": 15}})
        return {"issues": out}
    for i, p in enumerate(FILES):
        out.append({"rule": "python:S2245", "status": "OPEN", "component": f"proj:{p}", "key": f"k{i}a", "message": "m",
                    "textRange": {"startLine": 3, "endLine": 3, "startOffset": 0, "endOffset": 15}})
        out.append({"rule": "python:S2245", "status": "OPEN", "component": f"proj:{p}", "key": f"k{i}b", "message": "m",
                    "textRange": {"startLine": 5, "endLine": 5, "startOffset": 0, "endOffset": 20}})
    return {"issues": out}


def build(pipe: str, faults: list[dict], sid: str) -> dict:
    spec = PIPES[pipe]
    files = {f: spec["good"] for f in FILES}
    inject: dict = {}
    for x in faults:
        f = FILES[x["fj"] - 1]
        c = spec["queue"][x["ci"] - 1]
        if x["kind"] in ("badutf8", "badutf8comment", "nul", "syntax", "empty"):
            files[f] = bad_content(x["kind"], spec["good"])
        elif x["kind"] == "vanish":
            inject.setdefault("vanish", []).append({"c": c, "f": f})
        elif x["kind"] == "malformedTree":
            inject.setdefault("malformed_tree", []).append({"c": c, "f": f})
        elif x["kind"] == "raiseInLaterTransformer":
            inject.setdefault("raise_in_transform", []).append({"c": c, "f": f, "t": 2})
        elif x["kind"] == "raise":
            inject.setdefault("raise_in_transform", []).append({"c": c, "f": f})
        elif x["kind"].startswith("raiseAtNode"):
            inject.setdefault("raise_at_node", []).append({"c": c, "f": f, "n": {"raiseAtNodeEarly": 2, "raiseAtNodeMid": 25, "raiseAtNodeLate": "after-first-change"}[x["kind"]]})
    argv = ["{dir}", "--output", "{out}", "--codemod-include", ",".join(spec["queue"])]
    res = {}
    if pipe in ("sast", "sast2"):
        res["sonar.json"] = sonar_doc(pipe)
        argv += ["--sonar-issues-json", "{res}/sonar.json"]
    if pipe == "multi":
        res["dojo.json"] = {"results": [{"id": 10 * i + j, "title": DOJO_RULE, "file_path": p, "line": line}
                                        for i, p in enumerate(FILES, 1) for j, line in enumerate((4, 5))]}
        argv += ["--defectdojo-findings-json", "{res}/dojo.json"]
    return {"id": sid, "files": files, "resfiles": res, "steps": [{"argv": argv, "inject": inject, "keep_after": True}]}


def _deep_nesting_probe(chk: Check) -> None:
    """A file the parser cannot take because of its nesting depth, next to a good one: run through the console script in
    a process of its own (a crash of the parser is a crash of the process)."""
    import os
    import shutil
    import subprocess
    import tempfile

    from ..common import scratch_root

    work = tempfile.mkdtemp(prefix="deep-", dir=scratch_root())
    target = os.path.join(work, "target")
    os.makedirs(target)
    depth = 1300
    with open(os.path.join(target, "m_deep.py"), "w") as f:
        f.write("assert (1, 2)\nx = " + "(" * depth + "1" + ")" * depth + "\n")
    with open(os.path.join(target, "ok.py"), "w") as f:
        f.write("assert (1, 'two')\n")
    out = os.path.join(work, "out.codetf")
    env = {k: v for k, v in os.environ.items() if not k.startswith("CODEMODDER_")}
    p = subprocess.run(["/venv/bin/codemodder", target, "--output", out, "--codemod-include", "pixee:python/fix-assert-tuple"],
                       capture_output=True, text=True, errors="replace", env=env, timeout=600, cwd=work)
    chk.count()
    chk.nontrivial(("deep-nesting", depth))
    ok_after = open(os.path.join(target, "ok.py")).read()
    report = os.path.isfile(out) and os.path.getsize(out) > 0
    problems = []
    if p.returncode != 0:
        problems.append(f"exit status {p.returncode}")
    if not report:
        problems.append("no report")
    if "assert 1" not in ok_after:
        problems.append("the good file next to it was not processed")
    if problems:
        chk.violation("C10|deep-nesting|run-stopped", f"a file with {depth} nested parentheses next to a good file: {problems}; stderr: {p.stderr[-200:]!r}",
                      {"files": {"m_deep.py": f"assert (1, 2)\\nx = {'(' * 3}...{depth} levels...1{')' * 3}", "ok.py": "assert (1, 'two')\n"}, "exit": p.returncode})
    shutil.rmtree(work, ignore_errors=True)


def run(chk: Check) -> None:
    d = scratch("faults")
    (d / "Faults.tla").write_text((tlc.SPEC_DIR / "Faults.tla").read_text())
    maxf = chk.pick(1, 2)
    (d / "Faults.cfg").write_text((tlc.SPEC_DIR / "Faults.cfg").read_text().replace("MaxFaults = 1", f"MaxFaults = {maxf}"))
    res = tlc.run_tlc(d, "Faults", "Faults.cfg", dump=True)
    if res.violated:
        raise tlc.TlcFailure(f"Faults lemma violated: {res.violated[0][:2]}")
    chk.add_tlc(res)
    placements = []
    for st in res.dump:
        if st["st"] != "done":
            continue
        faults = sorted((dict(x) for x in st["f"]["faults"]), key=lambda x: (x["fj"], x["kind"], x["ci"]))
        placements.append((st["f"]["pipe"], faults, sorted(st["exp"]["mustFail"]), sorted(st["exp"]["intact"])))
    placements.sort(key=lambda p: json.dumps(p[:2], sort_keys=True))
    if not chk.quick:
        # all single faults + a seeded sample of the double faults
        singles = [p for p in placements if len(p[1]) == 1]
        doubles = [p for p in placements if len(p[1]) == 2]
        chk.rng.shuffle(doubles)
        placements = singles + doubles[:600]
    scenarios = []
    twins = {}
    for pipe in PIPES:
        twins[pipe] = build(pipe, [], f"C10-twin-{pipe}")
        scenarios.append(twins[pipe])
    metas = {}
    for i, (pipe, faults, must, intact) in enumerate(placements):
        sc = build(pipe, faults, f"C10-{i}")
        q = PIPES[pipe]["queue"]
        sc["steps"][0]["expect"] = {"mustFail": [[q[ci - 1], FILES[fj - 1]] for ci, fj in must]}
        scenarios.append(sc)
        metas[sc["id"]] = {"pipe": pipe, "faults": faults, "mustFail": must, "intact": intact}
    results = {r["id"]: r for r in runner.run_many(scenarios)}
    traces = []
    for pipe in PIPES:
        traces.append(results[f"C10-twin-{pipe}"]["steps"][0]["trace"])
    for sid, m in metas.items():
        st = results[sid]["steps"][0]
        twin = results[f"C10-twin-{m['pipe']}"]["steps"][0]
        faulted = {FILES[x["fj"] - 1] for x in m["faults"]}
        others = [f for f in FILES if f not in faulted]
        same_content = all(st["after"].get(f) == twin["after"].get(f) for f in others)

        def per_file(rep, keep):
            out = []
            for r in (rep or {}).get("results", []):
                out.append((r["codemod"], sorted(json.dumps(c, sort_keys=True) for c in r["changeset"] if c["path"] in keep),
                            sorted(p.rsplit("/target/", 1)[-1] for p in r.get("failedFiles", []) if p.rsplit("/target/", 1)[-1] in keep)))
            return out

        same_results = per_file(st["report"], others) == per_file(twin["report"], others)
        tr = st["trace"]
        tr["events"].append({"ev": "Compare", "what": "other-files-differ-from-the-fault-free-run", "equal": bool(same_content)})
        tr["events"].append({"ev": "Compare", "what": "results-for-other-files-differ-from-the-fault-free-run", "equal": bool(same_results)})
        # bytes of the faulty files (static faults and transformer faults): unchanged by the run
        intact_ok = True
        for fj in m["intact"]:
            f = FILES[fj - 1]
            kinds = {x["kind"] for x in m["faults"] if x["fj"] == fj}
            if kinds & {"badutf8", "badutf8comment", "nul", "syntax", "empty"}:
                intact_ok = intact_ok and f not in st["changed_files"]
        tr["events"].append({"ev": "Compare", "what": "unprocessable-file-was-modified", "equal": bool(intact_ok)})
        # a transformer fault hits ONE (codemod, file) step: every other codemod still treats that file as in the twin run
        q = PIPES[m["pipe"]]["queue"]

        def touches(rep, cid, f):
            for r in (rep or {}).get("results", []):
                if r["codemod"] == cid:
                    return (any(c["path"] == f for c in r["changeset"]), any(p.rsplit("/target/", 1)[-1] == f for p in r.get("failedFiles", [])))
            return (False, False)

        others_ok = True
        for x in m["faults"]:
            if x["kind"].startswith("raise") or x["kind"] == "malformedTree":
                f = FILES[x["fj"] - 1]
                for ci, cid in enumerate(q, 1):
                    if ci != x["ci"] and touches(st["report"], cid, f) != touches(twin["report"], cid, f):
                        others_ok = False
        tr["events"].append({"ev": "Compare", "what": "another-codemod-treats-the-faulted-file-differently", "equal": bool(others_ok)})
        traces.append(tr)
    verdicts, stats = tracecheck.validate(traces)
    for s in stats:
        chk.add_tlc(s)
    chk.coverage["traces_validated_against_impl"] += len(traces)
    for pipe in PIPES:
        t = results[f"C10-twin-{pipe}"]["steps"][0]
        v = verdicts[t["trace"]["id"]]
        if [c for c in v if not c.startswith(("FileBegin:worker", "inv:C11"))]:
            chk.violation(f"C10|twin|{pipe}", f"fault-free twin run of pipeline {pipe} is itself rejected: {v}", {"verdict": v})
    fired = 0
    for sid, m in metas.items():
        st = results[sid]["steps"][0]
        chk.count()
        v = [c for c in verdicts[st["trace"]["id"]] if c.startswith((
            "FileEnd:failed-file-modified", "FileEnd:unprocessable", "FileEnd:findings-of-failed", "FileEnd:exception", "FileEnd:failed-and-changed",
            "FileEnd:silent-write", "inv:C10", "CodemodEnd:", "RunEnd:", "ReportBuilt:", "ReportWritten:", "Compare:", "Merge:", "inv:C15", "inv:C20"))]
        failed_events = [e for e in st["trace"]["events"] if e["ev"] == "FileEnd" and e["o"] == "failed"]
        if failed_events or any(x["kind"] in ("empty", "vanish") for x in m["faults"]):
            fired += 1
            chk.nontrivial((m["pipe"], json.dumps(m["faults"], sort_keys=True)))
        if st["exit"] != 0:
            v.append(f"exit-status-{st['exit']}")
        if v:
            kinds = "+".join(f"{x['kind']}@c{x['ci']}" for x in m["faults"])
            chk.violation(f"C10|{m['pipe']}|{kinds}|{'+'.join(sorted(set(c.split(':')[0] + ':' + c.split(':', 1)[-1][:45] for c in v)))}",
                          f"pipeline {m['pipe']}, faults {m['faults']}: {sorted(set(v))}; stderr: {st['stderr'][-300:]}",
                          {"scenario": {k: results[sid].get(k) for k in ()}, "meta": m, "verdict": v,
                           "argv": next(s for s in scenarios if s["id"] == sid)["steps"][0]["argv"],
                           "inject": next(s for s in scenarios if s["id"] == sid)["steps"][0]["inject"]})
    chk.coverage["placements_where_a_fault_fired"] = fired
    _deep_nesting_probe(chk)
    chk.sample({"placement": placements[0][:2], "mustFail": placements[0][2]})
    chk.sample({"placement": placements[-1][:2], "mustFail": placements[-1][2]})
    chk.assumptions += [
        "a rule-detected codemod selects only files in which its rule reported; whether the rule engine reports in a file it cannot parse is not prescribed",
        "an empty file is a valid module (no failure demanded)",
        "faults inside semgrep itself are not injected",
    ]


def replay(data: dict) -> int:
    print(json.dumps(data, indent=1)[:4000])
    return 0
