"""C15 - the CodeTF report is always well-formed, complete and internally consistent.

Every run of the sample (ProgramSpace vectors: failures aside, dependency changes, layouts, sequences) plus corner runs
(no codemod selected, empty directory, every file failing, non-ASCII sources and paths, SAST runs of each tool with the
repository's own seed findings, failed and changed files in one codemod) is recorded; Trace_Run checks the relational
invariants between the report and the run (one result per selected codemod in order, changesets = what the run merged,
failed and changed disjoint, line numbers inside the file); the document is validated against the vendored JSON schema
both as built and as written to --output.
"""
from __future__ import annotations

import json

from .. import codetf_schema, runspace, seeds
from ..common import Check

LEVEL = "model_checking"
RULE = ('cases = MC_Run behaviours replayed and run vectors whose report is rebuilt from the trace; non-trivial = distinct scenario labels with at least one codemod result')
CLAUSES = ("ReportBuilt:", "inv:C15", "FileEnd:malformed-changeset", "FileEnd:failed-and-changed", "Deps:malformed-changeset",
           "ReportWritten:", "RunEnd:uncaught", "CodemodEnd:exception")


def _sast_option(seed) -> list[str]:
    if seed.tool == "sonar":
        try:
            doc = json.loads(seed.results)
        except ValueError:
            doc = {}
        return ["--sonar-hotspots-json" if "hotspots" in doc and "issues" not in doc else "--sonar-issues-json", "{res}/results.json"]
    if seed.tool == "semgrep":
        return ["--sarif", "{res}/results.json"]
    return ["--defectdojo-findings-json", "{res}/results.json"]


def corner_scenarios(chk: Check) -> list[dict]:
    out = []
    src = "x = set([1, 2])\nassert (1, 'm')\n"

    def add(sid, files, argv, resfiles=None, what="", inject=None, only_if_completed=False):
        out.append({"id": sid, "files": files, "resfiles": resfiles or {}, "steps": [{"argv": ["{dir}", "--output", "{out}"] + argv, "inject": inject or {}}],
                    "_v": None, "_what": what, "_only_if_completed": only_if_completed})

    add("C15-zero-codemods", {"a.py": src}, ["--codemod-include", "pixee:python/no-such-codemod"], what="unknown id only")
    add("C15-empty-dir", {}, ["--codemod-include", "pixee:python/use-set-literal,pixee:python/fix-assert-tuple"], what="empty directory")
    add("C15-no-python", {"notes.txt": "hello", "data.json": "{}"}, ["--codemod-include", "pixee:python/use-set-literal"], what="no python file")
    add("C15-all-fail", {"a.py": "def broken(:\n", "b.py": "x = (\n"}, ["--codemod-include", "pixee:python/use-set-literal,pixee:python/fix-assert-tuple"], what="every file fails")
    add("C15-fail-and-change", {"a.py": "def broken(:\n", "b.py": src, "c.py": src}, ["--codemod-include", "pixee:python/use-set-literal,pixee:python/fix-assert-tuple"], what="failures and changes")
    add("C15-nonascii", {"pkg/módulo_日本.py": "# коммент\nname = 'héllo ✓'\n" + src, "b.py": src},
        ["--codemod-include", "pixee:python/use-set-literal,pixee:python/fix-assert-tuple"], what="non-ASCII path and content")
    # a rewritten source that cannot be written back (disk full): what the run does then is not prescribed, but IF it
    # completes with status 0 its report must still be consistent
    add("C15-write-error", {"a.py": src, "b.py": src, "c.py": src}, ["--codemod-include", "pixee:python/use-set-literal,pixee:python/fix-assert-tuple"],
        what="write error on one rewritten file", inject={"raise_in_write": {"f": "b.py"}}, only_if_completed=True)
    # line filters on a statement that spans several lines (every line, as exclude and as include)
    multi = "import requests\nrequests.get(\n    \"https://example.com\",\n    verify=False,\n)\nx = set([1, 2])\n"
    for n in range(1, 7):
        for opt in ("--path-exclude", "--path-include"):
            add(f"C15-lines-{opt[7:]}-{n}", {"app.py": multi}, ["--codemod-include", "pixee:python/requests-verify,pixee:python/use-set-literal", opt, f"app.py:{n}"],
                what=f"{opt} app.py:{n} on a multi-line statement")
    add("C15-dry", {"a.py": src}, ["--codemod-include", "pixee:python/use-set-literal", "--dry-run"], what="dry run")
    add("C15-default-exclude-mode", {"a.py": src}, ["--codemod-exclude", "pixee:python/*"], what="everything excluded")
    # SAST runs with the repository's own seed findings, one per tool (more in thorough)
    per_tool = chk.pick(2, 8)
    count = {}
    for s in seeds.load():
        if not (s.sast and s.changes and s.results and s.ext == "py" and not s.files):
            continue
        if count.get(s.tool, 0) >= per_tool:
            continue
        count[s.tool] = count.get(s.tool, 0) + 1
        add(f"C15-sast-{s.tool}-{count[s.tool]}", {"code.py": s.input}, ["--codemod-include", s.codemod] + _sast_option(s),
            resfiles={"results.json": seeds.results_for_cli(s.tool, s.results)}, what=f"SAST {s.tool} {s.codemod}")
    # SAST codemods that ALSO add a dependency (a changeset for the manifest in a tool's result), one seed each
    seen = set()
    for s in seeds.load():
        if not (s.sast and s.changes and s.results and s.ext == "py" and not s.files) or s.codemod in seen:
            continue
        if s.codemod.split("/")[-1] not in ("url-sandbox", "sandbox-process-creation", "use-defusedxml", "harden-pickle-load", "flask-enable-csrf-protection"):
            continue
        seen.add(s.codemod)
        add(f"C15-sastdep-{len(seen)}", {"code.py": s.input, "requirements.txt": "requests\n"}, ["--codemod-include", s.codemod] + _sast_option(s),
            resfiles={"results.json": seeds.results_for_cli(s.tool, s.results)}, what=f"SAST {s.tool} {s.codemod} with a manifest")
    return out


def run(chk: Check) -> None:
    vectors = runspace.enumerate_vectors(chk)
    sample = runspace.sample_covering(chk, vectors, chk.pick(70, 900))
    # a manifest with trailing blank lines, for programs whose fix adds a dependency
    bt = [v for v in vectors if v["manifest"] == "requirements-blanktail" and v["layout"] == "lf" and len(v["queue"]) == 1 and v["workers"] == 1
          and v["queue"][0].split("/")[-1] in ("url-sandbox", "sandbox-process-creation", "use-defusedxml", "harden-pickle-load")]
    bt.sort(key=runspace.vkey)
    sample += [v for v in bt if v not in sample][: chk.pick(6, 40)]
    scenarios = [runspace.scenario_for(v, f"C15-{i}") for i, v in enumerate(sample)] + corner_scenarios(chk)
    for scn, res, verdicts in runspace.run_and_validate(chk, scenarios):
        st = res["steps"][0]
        chk.count()
        if scn.get("_only_if_completed") and (st["exit"] != 0 or st["exc"]):
            chk.coverage["runs_not_completed_not_judged"] = chk.coverage.get("runs_not_completed_not_judged", 0) + 1
            continue
        label = runspace.vkey(scn["_v"]) if scn.get("_v") else scn["_what"]
        chk.nontrivial(label)
        bad = sorted({c for c in verdicts[st["trace"]["id"]] if c.startswith(CLAUSES)})
        rep = st["report"]
        if st["exit"] == 0:
            if rep is None:
                bad.append("no-report-file-after-exit-0")
            else:
                err = codetf_schema.check(rep)
                if err:
                    bad.append(f"written-report-schema:{err[:80]}")
                built = [e for e in st["trace"]["events"] if e["ev"] == "ReportBuilt"]
                if built and [r["codemod"] for r in rep.get("results", [])] != [r["c"] for r in built[0]["results"]]:
                    bad.append("written-report-differs-from-built-report")
        if bad:
            chk.violation(f"C15|{label}|{'+'.join(b[:50] for b in bad)}", f"{label}: {bad}; {'; '.join(st['notes'][:4])}",
                          {"files": scn["files"], "argv": scn["steps"][0]["argv"], "verdict": bad, "notes": st["notes"]})
    chk.sample({"corner_runs": [s["_what"] for s in scenarios if s.get("_what")]})
    chk.sample({"vector": sample[0]})
    chk.assumptions += ["the JSON schema is a hand transcription of the pydantic models and the published field list (official schema not available offline)",
                        "an empty description string is accepted as 'has a description'"]


def replay(data: dict) -> int:
    print(json.dumps(data, indent=1)[:4000])
    return 0
