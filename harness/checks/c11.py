"""C11 - results do not depend on scheduling, worker count, hash seed or sibling files; worker bound.

M1: MC_Pool (spec/Pool.tla) explores every interleaving of N <= 4 files on W <= 3 workers: worker bound, each file
once, delivery in input order whatever the completion order.  Its terminal behaviours (completion orders) become
per-file delay schedules for real runs; the recorded Begin/End order of every run is validated by Trace_Run (worker
bound in every state, merge in input order).  Perturbed runs (workers, schedule, PYTHONHASHSEED, creation order,
siblings) are compared with a reference run; the comparison result enters the trace as a `Compare` event.
"""
from __future__ import annotations

import copy
import json

from .. import runner, subrun, tlc, tracecheck
from ..common import Check, scratch

LEVEL = "model_checking"
RULE = ('cases = Pool/ProgramSpace scenarios: worker counts x delay schedules x hash seeds x creation orders x sibling sets; non-trivial when the perturbation was actually observed (completion order differs from input order, or a different seed/order was in force); distinct = distinct (kind, parameters, observed schedule)')

FILES = {
    "pkg/a.py": "import os\n\nx = set([1, 2])\nassert (1 == 1, 'm')\nprint(os.sep)\n",
    "pkg/b.py": "y = set([3])\n\ndef f(v=[]):\n    return any([i for i in v])\n",
    "pkg/sub/c.py": "z = set([4, 5])\nw = list(set([1]))\n",
    "d.py": "assert (2, 'x')\nq = set(['q'])\n",
    "e_bad.py": "def broken(:\n    pass\n",
    "f_bad2.py": "print 'python 2'\n",
    "pkg/g_bad3.py": "x = (\n",
    "pkg/sub/h_bad4.py": "class :\n",
    "pkg/bom.py": "\ufeffvalues = set([7, 8])\nassert (3, 'bom')\n",
    "notes.txt": "x = set([1])\n",
    # names that differ only by case (ties of any case-insensitive ordering)
    "pkg/Handlers.py": "h1 = set([1])\n",
    "pkg/handlers.py": "h2 = set([2])\nassert (1, 'h')\n",
    "pkg/HANDLERS.py": "h3 = set([3])\n",
}
CODEMODS = "pixee:python/use-set-literal,pixee:python/fix-assert-tuple,pixee:python/use-generator,pixee:python/fix-mutable-params"


def norm_report(rep):
    if rep is None:
        return None
    r = copy.deepcopy(rep)
    d = r.get("run", {}).get("directory", "")
    for k in ("elapsed", "directory", "commandLine"):
        r.get("run", {}).pop(k, None)
    for res in r.get("results", []):
        if res.get("failedFiles"):
            res["failedFiles"] = [p[len(d) + 1 :] if d and p.startswith(d + "/") else p for p in res["failedFiles"]]
    return r


def _scenario(sid, files, argv_extra, inject=None):
    return {
        "id": sid,
        "files": files,
        "steps": [{"argv": ["{dir}", "--output", "{out}", "--codemod-include", CODEMODS] + argv_extra, "inject": inject or {}, "keep_after": True}],
    }


def _mc_pool(chk: Check, n: int, w: int):
    d = scratch("pool")
    for f in ("MC_Pool.tla",):
        (d / f).write_text((tlc.SPEC_DIR / f).read_text())
    (d / "MC_Pool.cfg").write_text((tlc.SPEC_DIR / "MC_Pool.cfg").read_text().replace("N = 4", f"N = {n}").replace("W = 3", f"W = {w}"))
    res = tlc.run_tlc(d, "MC_Pool", "MC_Pool.cfg", dump=True)
    if res.violated:
        raise tlc.TlcFailure(f"MC_Pool violated {res.violated[0][:2]}")
    chk.add_tlc(res)
    return sorted({s["finishedSeq"] for s in res.dump if len(s["finishedSeq"]) == n})


def run(chk: Check) -> None:
    py = sorted(k for k in FILES if k.endswith(".py"))
    # input order of the pool = sorted relative paths
    from pathlib import Path

    order = sorted(py, key=lambda r: Path(r).parts)
    n = len(order)
    scenarios = [_scenario("C11-ref", FILES, ["--max-workers", "1"])]
    meta = {"C11-ref": {"kind": "reference"}}

    # ---- A: schedules from the model's completion orders
    sched = []
    for w in (1, 2, 3):
        orders = _mc_pool(chk, 4, w)
        for o in orders:
            sched.append((w, o))
    chk.rng.shuffle(sched)
    if chk.quick:
        sched = sched[:14]
    step = 0.04
    for k, (w, o) in enumerate(sched):
        # the model's tasks 1..4 are the first four files in input order; the fifth gets no delay
        delays = {order[t - 1]: step * (rank + 1) for rank, t in enumerate(o)}
        sid = f"C11-sched-{k}"
        # alternate where the delay sits: before the file step, or between parsing and writing (inside the transformer)
        inj = {"delay": delays} if k % 2 == 0 else {"delay_transform": delays}
        scenarios.append(_scenario(sid, FILES, ["--max-workers", str(w)], inj))
        meta[sid] = {"kind": "schedule", "w": w, "completion_order": list(o)}
    # ---- B: worker counts with a uniform delay (every file overlaps if the pool lets it)
    for w in (1, 2, 4, 16):
        sid = f"C11-workers-{w}"
        scenarios.append(_scenario(sid, FILES, ["--max-workers", str(w)], {"delay_all": 0.08}))
        meta[sid] = {"kind": "workers", "w": w}
    # ---- D: creation order / directory shape
    for k in range(chk.pick(3, 12)):
        items = list(FILES.items())
        chk.rng.shuffle(items)
        if k == 0:
            items = list(reversed(list(FILES.items())))
        sid = f"C11-order-{k}"
        scenarios.append(_scenario(sid, dict(items), ["--max-workers", "2"]))
        meta[sid] = {"kind": "creation-order", "order": [i[0] for i in items]}
    # ---- E: sibling independence
    for f in py:
        sid = f"C11-single-{f}"
        scenarios.append(_scenario(sid, {f: FILES[f]}, ["--max-workers", "1"]))
        meta[sid] = {"kind": "single", "file": f}

    # ---- F: a large project (over a thousand siblings) with a rule-detected codemod; files in directories that tools
    # commonly skip by default (vendor/, build/, dist/, third_party/) must be treated as when they are alone
    trig = "import requests\n\nrequests.get(u, verify=False)\n"
    special = {"app/vendor/client.py": trig, "build/gen.py": trig, "dist/pkg/mod.py": trig, "third_party/lib/x.py": trig, "app/core.py": trig}
    large = dict(special)
    for k in range(1030):
        large[f"filler/p{k // 100}/m{k:04d}.py"] = f"v{k} = {k}\n"
    rv = ["{dir}", "--output", "{out}", "--codemod-include", "pixee:python/requests-verify"]
    # run from a neutral working directory (the rule engine's own ignore defaults depend on where it is started)
    scenarios.append({"id": "C11-large", "files": large, "steps": [{"argv": rv, "keep_after": True, "cwd": "{work}"}]})
    meta["C11-large"] = {"kind": "large", "files": len(large)}
    for f in special:
        sid = f"C11-largesingle-{f}"
        scenarios.append({"id": sid, "files": {f: special[f]}, "steps": [{"argv": rv, "keep_after": True, "cwd": "{work}"}]})
        meta[sid] = {"kind": "large-single", "file": f}

    results = {r["id"]: r for r in runner.run_many(scenarios)}
    ref = results["C11-ref"]["steps"][0]
    ref_rep = norm_report(ref["report"])
    traces = []
    for sc in scenarios:
        sid = sc["id"]
        st = results[sid]["steps"][0]
        tr = st["trace"]
        m = meta[sid]
        chk.count()
        if m["kind"] in ("schedule", "workers", "creation-order"):
            same_rep = norm_report(st["report"]) == ref_rep
            same_tree = st["after"] == ref["after"]
            tr["events"].append({"ev": "Compare", "what": "report-differs-from-reference-run", "equal": bool(same_rep)})
            tr["events"].append({"ev": "Compare", "what": "tree-differs-from-reference-run", "equal": bool(same_tree)})
            if m["kind"] == "schedule":
                ends = [e["f"] for e in tr["events"] if e["ev"] == "FileEnd"]
                chk.nontrivial(("sched", m["w"], tuple(m["completion_order"]), tuple(ends[:n])))
            else:
                chk.nontrivial((m["kind"], json.dumps(m, sort_keys=True)))
        elif m["kind"] == "large":
            chk.nontrivial(("large", m["files"]))
        elif m["kind"] in ("single", "large-single"):
            f = m["file"]
            base = results["C11-large" if m["kind"] == "large-single" else "C11-ref"]["steps"][0]
            same_file = st["after"].get(f) == base["after"].get(f)

            def per_file(rep, f=f):
                out = []
                for r in (rep or {}).get("results", []):
                    cs = [c for c in r["changeset"] if c["path"] == f]
                    failed = [p for p in r.get("failedFiles", []) if p.endswith("/" + f)]
                    out.append((r["codemod"], json.dumps(cs, sort_keys=True), len(failed)))
                return out

            tr["events"].append({"ev": "Compare", "what": "file-content-depends-on-siblings", "equal": bool(same_file)})
            tr["events"].append({"ev": "Compare", "what": "file-result-depends-on-siblings", "equal": per_file(st["report"]) == per_file(base["report"])})
            chk.nontrivial((m["kind"], f))
        traces.append(tr)

    # ---- C: hash seeds (fresh interpreters).  SAST mode: tool codemods of several collections are eligible.
    seeds = chk.pick([0, 1, 2, 3], list(range(0, 12)))
    sast_sc = {
        "id": "C11-seed",
        "files": {"app.py": "import random\nx = random.random()\n"},
        "resfiles": {"sonar.json": {"issues": []}},
        "steps": [{"argv": ["{dir}", "--output", "{out}", "--sonar-issues-json", "{res}/sonar.json"], "keep_after": True}],
    }
    ff_sc = {
        "id": "C11-seedff",
        "files": FILES,
        "steps": [{"argv": ["{dir}", "--output", "{out}", "--codemod-include", "pixee:python/use-*,pixee:python/fix-*"], "keep_after": True}],
    }
    jobs = []
    for s in seeds:
        a = copy.deepcopy(sast_sc)
        a["id"] = f"C11-seed-sast-{s}"
        jobs.append((a, {"hashseed": s}))
    for s in seeds[: chk.pick(2, 6)]:
        b = copy.deepcopy(ff_sc)
        b["id"] = f"C11-seed-ff-{s}"
        jobs.append((b, {"hashseed": s}))
    outs = subrun.run_many_subprocess(jobs)
    refs = {}
    for (sc, opt), out in zip(jobs, outs):
        st = out["steps"][0]
        fam = "sast" if "-sast-" in sc["id"] else "ff"
        chk.count()
        chk.nontrivial(("seed", fam, opt["hashseed"]))
        key = (json.dumps(norm_report(st["report"]), sort_keys=True), json.dumps(st["after"], sort_keys=True))
        if fam not in refs:
            refs[fam] = (key, [r["codemod"] for r in st["report"]["results"]])
        same = key == refs[fam][0]
        tr = st["trace"]
        tr["events"].append({"ev": "Compare", "what": f"report-depends-on-hash-seed-{fam}", "equal": bool(same)})
        traces.append(tr)
        meta[tr["id"].split("#")[0]] = {"kind": "hashseed", "family": fam, "seed": opt["hashseed"],
                                         "order_head": [r["codemod"] for r in st["report"]["results"]][:3]}

    # ---- G: the worker bound for EVERY number of files and workers up to 12 (not only the instance TLC explores):
    # inductive invariant of the index abstraction PoolAbs.tla, discharged by Apalache
    from .. import apalache

    if apalache.available():
        obs = apalache.inductive("PoolAbs", cinit="ConstInit", init="Init", ind_init="IndInit", ind_inv="IndInv", goal="WorkerBound")
        chk.coverage["apalache_obligations"] = [{"obligation": o["obligation"], "ok": o["ok"], "wall_s": o["wall_s"]} for o in obs]
        if not all(o["ok"] for o in obs):
            bad = next(o for o in obs if not o["ok"])
            raise tlc.TlcFailure(f"PoolAbs.tla: obligation `{bad['obligation']}` not discharged by Apalache: {bad['tail'][-300:]}")
    else:
        chk.notes["apalache"] = "apalache-mc not on PATH: the inductive check of PoolAbs.tla was skipped"

    verdicts, stats = tracecheck.validate(traces)
    for s in stats:
        chk.add_tlc(s)
    chk.coverage["traces_validated_against_impl"] += len(traces)
    for tr in traces:
        sid = tr["id"].split("#")[0]
        v = [c for c in verdicts[tr["id"]] if c.startswith(("FileBegin:", "Merge:", "Compare:", "inv:C11", "FileEnd:not-in-flight", "CodemodEnd:files"))]
        if not v:
            continue
        m = meta[sid]
        for clause in sorted(set(v)):
            if clause in ("FileBegin:worker-bound", "inv:C11_WorkerBound"):
                sig = "C11|worker-bound"
                what = f"more than --max-workers files in flight (e.g. {sid}: {m})"
            elif clause.startswith("Compare:report-depends-on-hash-seed"):
                sig = f"C11|{clause.split(':', 1)[1]}"
                what = f"report differs between PYTHONHASHSEED values ({m})"
            else:
                sig = f"C11|{m['kind']}|{clause}"
                what = f"{clause} in {sid}: {m}"
            chk.violation(sig, what, {"scenario": next((s for s in scenarios if s["id"] == sid), sid), "meta": m, "verdict": v,
                                      "events": [e for e in tr["events"] if e["ev"] in ("FileBegin", "FileEnd", "Merge", "Compare")][:40]})
    chk.sample({"schedule": meta.get("C11-sched-0"), "events": [(e["ev"], e.get("f")) for e in results["C11-sched-0"]["steps"][0]["trace"]["events"] if e["ev"] in ("FileBegin", "FileEnd")]})
    chk.sample({"hash-seed-run": meta.get("C11-seed-sast-0")})
    chk.assumptions += [
        "delays are injected by the harness around BaseCodemod._process_file; the pool is never gated, so no schedule can deadlock",
        "directory enumeration order can only be varied through creation order on this file system",
    ]


def replay(data: dict) -> int:
    print(json.dumps(data, indent=1)[:4000])
    return 0
