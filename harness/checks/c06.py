"""C06 - SAST-driven fixes land exactly on the reported findings and carry them.

For every SAST codemod (Sonar, Semgrep, DefectDojo) with a single-line seed in the vendored corpus: a program with
three equally vulnerable copies of the seed's site (at shifted lines); the finding the repository's own test reports
for the site is cloned per reported site with the same line delta.  Gen_Sites.tla enumerates all 2^3 subsets of
reported sites plus the decoy kinds (same location under a foreign rule, same rule in a foreign file, resolved status,
no finding at all, empty result file) and says which sites must be rewritten; one run per codemod holds one file per
subset.  Trace_Run judges: exactly the reported sites rewritten, each change entry carries exactly the finding(s)
reported for its site, unfixed findings are reported ones.
"""
from __future__ import annotations

import copy
import itertools
import json
import os
import warnings
from pathlib import Path

from .. import gen, runner, seeds, tracecheck
from ..common import Check

LEVEL = "model_checking"
PINS = Path(__file__).resolve().parent.parent.parent / "corpus" / "c06_pins.json"
FOREIGN_RULE = {"sonar": "python:S99999", "semgrep": "python.lang.security.some-other-rule", "defectdojo": "python.some.other.rule-title"}


def _shift(obj, delta: int, old_file: str, new_file: str, dcol: int = 0):
    if isinstance(obj, dict):
        out = {}
        for k, v in obj.items():
            if k in ("startLine", "endLine", "line") and isinstance(v, int):
                out[k] = v + delta
            elif k in ("startColumn", "endColumn", "startOffset", "endOffset") and isinstance(v, int):
                out[k] = v + dcol
            elif isinstance(v, str) and k in ("component", "uri", "file_path"):
                out[k] = v[: len(v) - len(old_file)] + new_file if v.endswith(old_file) else v
            else:
                out[k] = _shift(v, delta, old_file, new_file, dcol)
        return out
    if isinstance(obj, list):
        return [_shift(x, delta, old_file, new_file, dcol) for x in obj]
    return obj


class Template:
    """The finding(s) the seed's own test reports for the site line, and how to put findings back into a document."""

    def __init__(self, seed, site_line: int):
        self.tool = seed.tool
        self.doc = json.loads(seeds.results_for_cli(seed.tool, seed.results))
        self.site_line = site_line
        self.as_hotspots = False   # Sonar: deliver the findings as hotspots of a combined export (issues of another rule next to them)
        self.entries = []  # (container_key, entry)
        if self.tool == "sonar":
            for key in ("issues", "hotspots"):
                for e in self.doc.get(key) or []:
                    if (e.get("textRange") or {}).get("startLine") == site_line:
                        self.entries.append((key, e))
        elif self.tool == "semgrep":
            for ri, run in enumerate(self.doc.get("runs", [])):
                for e in run.get("results", []):
                    locs = e.get("locations") or []
                    if locs and locs[0]["physicalLocation"]["region"].get("startLine") == site_line:
                        self.entries.append((ri, e))
        else:
            for e in self.doc.get("results", []):
                if e.get("line") == site_line:
                    self.entries.append(("results", e))

    def ok(self) -> bool:
        return bool(self.entries)

    def identity(self, entry, uid) -> list:
        """(finding id, rule id) as CodeTF reports it."""
        if self.tool == "sonar":
            r = entry.get("rule") or entry.get("ruleKey")
            return [r, r]
        if self.tool == "semgrep":
            r = entry.get("ruleId")
            return [r, r]
        return [str(uid), str(entry["title"])]

    def make(self, specs: list[dict]) -> tuple[dict, dict]:
        """specs: [{file, delta, kind: real|rule|status|ghost, uid}] -> (document, {file: {line: [[id, rule]]}})"""
        doc = copy.deepcopy(self.doc)
        expected: dict = {}
        if self.tool == "sonar":
            doc["issues"] = [] if "issues" in doc else doc.get("issues")
            doc["hotspots"] = [] if "hotspots" in doc else doc.get("hotspots")
            doc = {k: v for k, v in doc.items() if v is not None}
        elif self.tool == "semgrep":
            for run in doc["runs"]:
                run["results"] = []
        else:
            doc["results"] = []
        uid = itertools.count(1000)
        for sp in specs:
            for key, e in self.entries:
                u = next(uid)
                n = _shift(e, sp["delta"], "code.py", sp["file"], sp.get("dcol", 0))
                if self.tool == "defectdojo":
                    n["id"] = u
                if self.tool == "sonar":
                    n["key"] = f"k{u}"
                if sp["kind"] == "rule":
                    if self.tool == "sonar":
                        n["rule" if "rule" in n else "ruleKey"] = FOREIGN_RULE["sonar"]
                    elif self.tool == "semgrep":
                        n["ruleId"] = FOREIGN_RULE["semgrep"]
                    else:
                        n["title"] = FOREIGN_RULE["defectdojo"]
                if sp["kind"] == "status" and self.tool == "sonar":
                    n["status"] = ("RESOLVED", "CLOSED", "REVIEWED")[u % 3]
                if self.tool == "sonar":
                    if self.as_hotspots and sp["kind"] != "rule":
                        if n.get("status") == "OPEN":
                            n["status"] = "TO_REVIEW"
                        doc.setdefault("hotspots", []).append(n)
                    else:
                        doc[key].append(n)
                elif self.tool == "semgrep":
                    doc["runs"][key]["results"].append(n)
                else:
                    doc["results"].append(n)
                if sp["kind"] == "real":
                    expected.setdefault(sp["file"], {}).setdefault(str(sp.get("site", self.site_line + sp["delta"])), []).append(self.identity(n, u))
        if self.tool == "sonar" and specs and self.as_hotspots:
            # a combined export: hotspots next to an issue of some other rule (at the place of the first hotspot)
            key, e = self.entries[0]
            decoy = _shift(e, specs[0]["delta"], "code.py", specs[0]["file"], specs[0].get("dcol", 0))
            decoy["key"] = "kdecoy"
            decoy["rule" if "rule" in decoy else "ruleKey"] = FOREIGN_RULE["sonar"]
            doc.setdefault("issues", []).append(decoy)
        return doc, expected


def _multiline(text: str, site_lines: list[int]):
    """Spread every site over three lines (`f(` / arguments / `)`); returns (text, first line of each site, the inner
    line of each site) or None when the site is not a simple call on one line."""
    src = text.split("\n")
    out, starts, inner = [], [], []
    for no, ln in enumerate(src, 1):
        if no in site_lines:
            code, _, comment = ln.partition("  # site")
            i, j = code.find("("), code.rfind(")")
            if i < 0 or j <= i + 1:
                return None
            pad = code[: len(code) - len(code.lstrip())]
            starts.append(len(out) + 1)
            out.append(code[: i + 1] + (f"  # site{len(out) + 1}"))
            inner.append(len(out) + 1)
            out.append(pad + "    " + code[i + 1 : j].strip())
            out.append(pad + code[j:])
        else:
            out.append(ln)
    new = "\n".join(out)
    return (new, starts, inner) if seeds.compiles(new) else None


def option_for(tool: str, doc: dict) -> str:
    if tool == "sonar":
        return "--sonar-hotspots-json" if "hotspots" in doc and "issues" not in doc else "--sonar-issues-json"
    return "--sarif" if tool == "semgrep" else "--defectdojo-findings-json"


def run(chk: Check) -> None:
    warnings.simplefilter("ignore")
    # ---- the abstract scenarios: subsets and decoys, with the sites that must change (TLC)
    res = gen.run_generator("Gen_Sites", None, None)
    chk.add_tlc(res)
    abstract = [(st["sc"], sorted(st["exp"])) for st in res.dump if st["st"] == "done"]
    abstract.sort(key=lambda a: json.dumps(a[0], sort_keys=True, default=sorted))
    best = {}
    for s in seeds.load():
        if not (s.sast and s.changes and s.results and not s.files and s.ext == "py"):
            continue
        site = seeds.single_line_site(s)
        if not site:
            continue
        try:
            t = Template(s, site[0])
        except (ValueError, KeyError, TypeError):
            continue
        if t.ok():
            best.setdefault(s.codemod, []).append((s, site, t))
    for cid in best:
        best[cid].sort(key=lambda x: (len(x[0].input), x[0].key))
        best[cid] = best[cid][: chk.pick(1, 4)]
    pins = set(json.loads(PINS.read_text())["codemods"]) if PINS.exists() else set()
    scenarios = []
    for cid, si, seed, site, tpl in [(c, i, *b) for c in sorted(best) for i, b in enumerate(best[c])]:
        first = site[0]
        layouts = [[first, first + 2, first + 5], [first + 1, first + 2, first + 4]]
        progs = [(p[0], p[1], 0) for p in (seeds.multi_site_program(seed, site, lay, mark=True) for lay in layouts) if p]
        if not progs:
            continue
        # the same program one block deeper: every site moves one line down and four columns to the right
        wrapped = "if len(__name__) > 0:\n" + "\n".join(("    " + ln) if ln.strip() else ln for ln in progs[0][0].split("\n"))
        if seeds.compiles(wrapped) and tpl.tool != "defectdojo":
            progs.append((wrapped, [ln + 1 for ln in progs[0][1]], 4))
        files, specs, site_lines, exp_sites, site_spans = {}, [], {}, {}, {}
        for k, (sc, must) in enumerate(abstract):
            if sc["kind"] == "status" and tpl.tool != "sonar":
                continue
            if sc["kind"] == "inner":
                # a construct spanning several lines, the finding on an inner line: only for tools that report a line
                if tpl.tool != "defectdojo":
                    continue
                ml = _multiline(progs[0][0], progs[0][1]) if si == 0 else None
                if ml is None:
                    continue
                text, starts, inner = ml
                rel = f"multi{k}.py"
                files[rel] = text + "\n"
                site_lines[rel] = starts
                site_spans[rel] = {str(s_): [s_, s_ + 2] for s_ in starts}
                exp_sites[rel] = [starts[i - 1] for i in must]
                for i in sorted(sc["reported"]):
                    specs.append({"file": rel, "delta": inner[i - 1] - first, "kind": "real", "site": starts[i - 1]})
                continue
            text, lines, dcol = progs[k % len(progs)]
            if sc["kind"] == "tail":
                # the bystander (judged against `must` = nothing) and its twin, which carries the findings
                by, twin = (f"tl{k}.py", f"svc/tl{k}.py") if k % 2 == 0 else (f"svc/tl{k}.py", f"tl{k}.py")
                for r_ in (by, twin):
                    files[r_] = text + "\n"
                    site_lines[r_] = lines
                exp_sites[by] = []
                exp_sites[twin] = [lines[i - 1] for i in sorted(sc["reported"])]
                for i in sorted(sc["reported"]):
                    specs.append({"file": twin, "delta": lines[i - 1] - first, "kind": "real", "dcol": dcol})
                continue
            rel = f"pkg/code{k}.py" if k % 3 == 0 else f"code{k}.py"
            files[rel] = text + "\n"
            site_lines[rel] = lines
            exp_sites[rel] = [lines[i - 1] for i in must]
            for i in sorted(sc["reported"]):
                kind = "real" if sc["kind"] == "subset" else sc["kind"]
                target = "ghost/nowhere.py" if kind == "ghost" else rel
                specs.append({"file": target, "delta": lines[i - 1] - first, "kind": kind, "dcol": dcol})
        tpl.as_hotspots = tpl.tool == "sonar" and sorted(best).index(cid) % 3 == 0
        doc, findings = tpl.make(specs)
        opt = option_for(tpl.tool, doc)
        resfiles, resarg = {"results.json": doc}, "{res}/results.json"
        if (sorted(best).index(cid) + si) % 2 == 1 and tpl.tool in ("sonar", "defectdojo"):
            # the same findings delivered as two pages (two result files of one tool): entries dealt out alternately
            pages = [copy.deepcopy(doc), copy.deepcopy(doc)]
            for key in ("issues", "hotspots", "results"):
                if isinstance(doc.get(key), list):
                    for pi in (0, 1):
                        pages[pi][key] = [e for ei, e in enumerate(doc[key]) if ei % 2 == pi]
            resfiles, resarg = {"results.json": pages[0], "results2.json": pages[1]}, "{res}/results.json,{res}/results2.json"
        scenarios.append({
            "id": f"C06-{cid}-{si}", "files": files, "resfiles": resfiles,
            "steps": [{"argv": ["{dir}", "--output", "{out}", "--codemod-include", cid, opt, resarg],
                       "site_lines": site_lines, "site_spans": site_spans, "site_findings": findings, "expect": {"siteMay": exp_sites, "siteMust": exp_sites}}],
            "_meta": {"codemod": cid, "si": si, "tool": tpl.tool, "exp": exp_sites, "site_lines": site_lines},
        })
        # the empty result file
        empty, _ = tpl.make([])
        scenarios.append({
            "id": f"C06-empty-{cid}-{si}", "files": {"code.py": progs[0][0] + "\n"}, "resfiles": {"results.json": empty},
            "steps": [{"argv": ["{dir}", "--output", "{out}", "--codemod-include", cid, opt, "{res}/results.json"],
                       "site_lines": {"code.py": progs[0][1]}, "site_findings": {}, "expect": {"siteMay": {"code.py": []}, "siteMust": {"code.py": []}}}],
            "_meta": {"codemod": cid, "si": si, "tool": tpl.tool, "exp": {"code.py": []}, "site_lines": {"code.py": progs[0][1]}, "empty": True},
        })
    # ---- two sites on ONE line (`site; site`): a column offset instead of a line offset; all four subsets.
    # Judged on the text of that line (a line-level observation cannot tell the two sites apart).
    pair_scn = []
    for cid in sorted(best):
        seed, site, tpl = best[cid][0]
        if tpl.tool == "defectdojo":
            continue  # reports lines only
        lno, old, new = site
        if "#" in old or ";" in old:
            continue
        ind = seeds.indent_of(old)
        src = seed.input.split("\n")
        variants = [("inplace", src[: lno - 1] + [old + "; " + old.strip() + "  # pair"] + src[lno:], ind, 0, len(old) + 2 - len(ind), new)]
        if ind:
            # the same pair at module level, first site at column 0 (imports of the seed kept)
            head = [ln for ln in src[: lno - 1] if seeds.is_import_line(ln) and not ln.startswith((" ", "\t"))]
            variants.append(("col0", head + [old.strip() + "; " + old.strip() + "  # pair"], "", -len(ind), len(old.strip()) + 2 - len(ind), new.strip()))
        for vname, vlines, vind, dcol1, dcol2, vnew in variants:
            text = "\n".join(vlines)
            if not seeds.compiles(text):
                continue
            vold = old if vname == "inplace" else old.strip()
            files, want, specs = {}, {}, []
            for mask in range(4):
                rel = f"pair{mask}.py"
                files[rel] = text + "\n"
                parts = [vnew if mask & 1 else vold, (vnew if mask & 2 else vold).strip()]
                want[rel] = "; ".join(parts) + "  # pair"
                delta = (len(vlines) - 1 if vname == "col0" else lno - 1) + 1 - lno
                if mask & 1:
                    specs.append({"file": rel, "delta": delta, "kind": "real", "dcol": dcol1})
                if mask & 2:
                    specs.append({"file": rel, "delta": delta, "kind": "real", "dcol": dcol2})
            doc, _f = tpl.make(specs)
            pair_scn.append({"id": f"C06-pair-{vname}-{cid}", "files": files, "resfiles": {"results.json": doc},
                             "steps": [{"argv": ["{dir}", "--output", "{out}", "--codemod-include", cid, option_for(tpl.tool, doc), "{res}/results.json"], "keep_after": True}],
                             "_pair": {"codemod": cid, "tool": tpl.tool, "want": want, "old": old, "new": new, "variant": vname}})
    results = runner.run_many(scenarios + pair_scn)
    pair_results = results[len(scenarios):]
    results = results[: len(scenarios)]
    pair_traces = []
    for scn, r in zip(pair_scn, pair_results):
        st = r["steps"][0]
        m = scn["_pair"]
        pair_traces.append(st["trace"])

        def marked(rel):
            return next((ln for ln in st["after"].get(rel, "").split("\n") if ln.endswith("# pair")), None)

        if marked("pair3.py") != m["want"]["pair3.py"] or marked("pair0.py") != m["want"]["pair0.py"]:
            chk.coverage["same_line_pairs_not_judged"] = chk.coverage.get("same_line_pairs_not_judged", 0) + 1
            continue  # the codemod does not fix both sites of this shape even when both are reported: not a scenario
        for mask in (1, 2):
            rel = f"pair{mask}.py"
            chk.count()
            chk.nontrivial((m["codemod"], "same-line", m["variant"], mask))
            if marked(rel) != m["want"][rel]:
                chk.violation(f"C06|{m['codemod']}|same-line-{m['variant']}|reported={'first' if mask == 1 else 'second'}",
                              f"{m['codemod']} ({m['tool']}): two sites on one line, finding for the {'first' if mask == 1 else 'second'} only: line is `{marked(rel)}`, "
                              f"expected `{m['want'][rel]}`", {"argv": scn["steps"][0]["argv"], "text": scn["files"][rel], "results": scn["resfiles"]["results.json"]})
    # ---- scenario validation / pins: the control file (all sites reported) must be fully fixed
    control_ok = {}
    per_run = []
    for scn, r in zip(scenarios, results):
        st = r["steps"][0]
        m = scn["_meta"]
        rev = {v: k for k, v in st["ftok"].items()}
        changed = {}
        ev_by_file = {}
        for e in st["trace"]["events"]:
            if e["ev"] == "FileEnd":
                changed.setdefault(rev[e["f"]], set()).update(e["sites"])
                ev_by_file[rev[e["f"]]] = e
        per_run.append((changed, ev_by_file))
        if not m.get("empty"):
            full = [rel for rel, lines in m["site_lines"].items() if m["exp"][rel] == lines]
            control_ok[(m["codemod"], m["si"])] = bool(full) and all(
                sorted(changed.get(c, ())) == m["site_lines"][c] and ev_by_file.get(c, {}).get("findingsOk", False) for c in full
            )
    if os.environ.get("VERIF_PIN") == "1":
        ok = sorted(c for (c, i), v in control_ok.items() if v and i == 0)
        PINS.write_text(json.dumps({"_doc": "SAST codemods whose three-site program is fixed at every site, with the site's finding on each change entry, when all "
                                    "sites are reported (measured at pin time); C06 judges these, others are discarded", "codemods": ok}, indent=1))
        print(f"pinned {len(ok)} codemods")
    # the shortest seed of a pinned codemod is always judged (a failing control is itself a violation); further seeds
    # (thorough) only when their own control copy is fully fixed
    judged = [i for i, scn in enumerate(scenarios)
              if (scn["_meta"]["si"] == 0 and scn["_meta"]["codemod"] in pins) or control_ok.get((scn["_meta"]["codemod"], scn["_meta"]["si"]))]
    chk.coverage["codemods_with_seed"] = len(best)
    chk.coverage["codemods_judged"] = len({scenarios[i]["_meta"]["codemod"] for i in judged})
    chk.coverage["codemods_discarded"] = sorted(set(best) - {scenarios[i]["_meta"]["codemod"] for i in judged})
    traces = [results[i]["steps"][0]["trace"] for i in judged]
    verdicts, stats = tracecheck.validate(traces + pair_traces)
    for s in stats:
        chk.add_tlc(s)
    chk.coverage["traces_validated_against_impl"] += len(traces) + len(pair_traces)
    for i in judged:
        scn, st = scenarios[i], results[i]["steps"][0]
        m = scn["_meta"]
        changed, ev_by_file = per_run[i]
        v = [c for c in verdicts[st["trace"]["id"]] if c.startswith(("FileEnd:site", "FileEnd:change-entry", "FileEnd:rewritten-line", "FileEnd:unfixed-finding", "RunEnd:permitted-site", "RunEnd:uncaught", "CodemodEnd:exception"))]
        for rel, lines in m["site_lines"].items():
            chk.count()
            chk.nontrivial((m["codemod"], m["si"], tuple(m["exp"][rel]), tuple(lines)))
        if not v:
            continue
        for rel, lines in m["site_lines"].items():
            got = sorted(changed.get(rel, ()))
            want = m["exp"][rel]
            ev = ev_by_file.get(rel)
            problems = []
            if got != want:
                problems.append(f"rewritten {got} reported {want}")
            if ev and not ev.get("findingsOk", True):
                problems.append("wrong findings on change entries")
            if ev and not ev.get("unfixedOk", True):
                problems.append("unfixed finding never reported")
            if problems:
                kind = "inner-line" if rel.startswith("multi") else ("control" if want == lines else ("none-reported" if not want else "subset"))
                chk.violation(f"C06|{m['codemod']}|{kind}{'' if m['si'] == 0 else '|seed' + str(m['si'])}|{'+'.join(p.split(' ')[0] for p in problems)}",
                              f"{m['codemod']} ({m['tool']}) {rel}: sites {lines}: {'; '.join(problems)}; {'; '.join(st['notes'][:3])}",
                              {"argv": scn["steps"][0]["argv"], "file": rel, "text": scn["files"][rel], "results": scn["resfiles"]["results.json"], "verdict": v})
    chk.sample({"codemod": scenarios[0]["_meta"]["codemod"], "expected_sites_per_file": scenarios[0]["_meta"]["exp"]})
    chk.assumptions += [
        "single-line sites, one site per line; the finding location is the one the repository's own test reports, shifted by whole lines",
        "CodeTF findings of the Sonar and Semgrep adapters carry the rule id as finding id, so identity beyond the rule is compared only for DefectDojo",
        "codemods whose all-sites-reported control copy is not fully fixed at pin time are discarded (corpus/c06_pins.json)",
    ]


def replay(data: dict) -> int:
    print(json.dumps(data, indent=1)[:4000])
    return 0
