"""C12 - no finding is lost or altered between the tool result files and the codemods.

Algebra: Gen_Merge.tla enumerates all ordered pairs (and seeded triples) of result sets over 2 rules x 2 files with
0..k findings per key and computes the reference merge (key-wise concatenation); each case is replayed with the
public classes for `a | b` and `a |= b`.
Documents: Gen_Docs.tla enumerates abstract Sonar documents (issues / hotspots parts absent, null, empty or lists of
entries with status, range, rule, file), short sequences of Sonar and DefectDojo files, and SARIF documents with
runs of different tools; the expected findings are computed with Findings.tla; the documents are written out and
read with the real loaders (`from_json`, `from_sarif`, the `process_*_findings` accumulation loops).
End to end: findings for three sites split over two files / the two parts of a document -> all three sites fixed.
"""
from __future__ import annotations

import copy
import itertools
import json
import tempfile
from collections import Counter
from pathlib import Path

from .. import gen, runner, tracecheck
from ..common import Check, scratch_root

LEVEL = "model_checking"

FILES = {"f1": "a.py", "f2": "pkg/b.py"}
SONAR_RULE = {"r1": "python:S2245", "r2": "python:S1234"}
SARIF_RULE = {"r1": "rules.lang.r-one", "r2": "r-two"}
DOJO_RULE = {"r1": "python.django.security.audit.rule-one", "r2": "rule-two"}


# ------------------------------------------------------------------ merge algebra
def _mk_set(cls, s_idx: int, counts: dict):
    from codemodder.result import LineInfo
    from core_codemods.sonar.results import SonarLocation, SonarResult

    rs = cls()
    for (rule, file), n in sorted(counts.items()):
        for i in range(1, n + 1):
            loc = SonarLocation(file=Path(FILES[file]), start=LineInfo(s_idx * 10 + i, 1), end=LineInfo(s_idx * 10 + i, 5))
            rs.add_result(SonarResult(rule_id=rule, locations=[loc], finding_id=f"{s_idx}-{i}"))
    return rs


def _d(x) -> dict:
    """TLC prints an empty function as <<>>."""
    return {} if x == () else x


def _project(rs) -> dict:
    out = {}
    for rule, files in rs.items():
        for file, results in files.items():
            key = (rule, str(file))
            out[key] = Counter((getattr(r, "finding_id", None), r.locations[0].start.line if r.locations else None) for r in results)
    return {k: v for k, v in out.items() if v}


def _expected_merge(exp: dict) -> dict:
    out = {}
    for (rule, file), seq in _d(exp).items():
        out[(rule, FILES[file])] = Counter((f"{f['id'][0]}-{f['id'][1]}", f["id"][0] * 10 + f["id"][1]) for f in seq)
    return {k: v for k, v in out.items() if v}


def check_merge(chk: Check) -> None:
    from codemodder.result import ResultSet
    from codemodder.semgrep import SemgrepResultSet
    from core_codemods.sonar.results import SonarResultSet

    keys = [(r, f) for r in ("r1", "r2") for f in ("f1", "f2")]
    extra = set()
    for _ in range(chk.pick(150, 2500)):
        t = tuple(tuple(sorted(((k, chk.rng.choice([0, 0, 1, 2])) for k in keys))) for _ in range(3))
        extra.add(t)

    def tla_fn(cnt):
        return "(" + " @@ ".join(f'<<"{k[0]}", "{k[1]}">> :> {n}' for k, n in cnt) + ")"

    data = {
        "MaxPer": gen.RawTla(chk.pick("1", "2")),
        "ExtraTuples": gen.RawTla("{" + ", ".join("<<" + ", ".join(tla_fn(c) for c in t) + ">>" for t in sorted(extra)) + "}"),
    }
    res = gen.run_generator("Gen_Merge", "MergeData", data)
    chk.add_tlc(res)
    classes = [ResultSet, SonarResultSet, SemgrepResultSet]
    for st in res.dump:
        if st["st"] != "done":
            continue
        sets_counts = [dict(c) if isinstance(c, dict) else dict(c) for c in st["sc"]]
        want = _expected_merge(st["exp"])
        for form in ("or", "ior"):
            cls = classes[(len(sets_counts) + sum(sum(c.values()) for c in sets_counts)) % len(classes)]
            sets = [_mk_set(cls, i + 1, c) for i, c in enumerate(sets_counts)]
            chk.count()
            sig_sc = "+".join("".join(str(c[k]) for k in keys) for c in sets_counts)
            nontriv = sum(1 for c in sets_counts if any(c.values())) >= 2
            if nontriv:
                chk.nontrivial((form, sig_sc))
            before = [_project(x) for x in sets]
            try:
                if form == "or":
                    acc = sets[0]
                    for s in sets[1:]:
                        acc = acc | s
                else:
                    acc = cls()
                    for s in sets:
                        acc |= s
                got = _project(acc)
                err = None
                # combining must not alter its operands (result files are loaded once and reused)
                after = [_project(x) for x in sets]
                if after != before:
                    chk.violation(
                        f"C12|merge|{form}|operand-altered",
                        f"result sets with per-key counts {sig_sc} ({cls.__name__}) combined with `{'|' if form == 'or' else '|='}`: an operand was modified by the merge: "
                        f"{[_fmt(b) for b in before]} -> {[_fmt(a) for a in after]}",
                        {"form": form, "class": cls.__name__, "counts": [{f"{k[0]}/{k[1]}": n for k, n in c.items()} for c in sets_counts]},
                    )
            except Exception as ex:  # noqa: BLE001 - an exception while combining result sets loses every finding
                got, err = None, f"{type(ex).__name__}: {ex}"
            if got != want:
                kinds = _merge_kind(sets_counts, keys)
                chk.violation(
                    f"C12|merge|{form}|{kinds}|{'raises' if err else 'differs'}",
                    f"result sets with per-key counts {sig_sc} ({cls.__name__}) combined with `{'|' if form == 'or' else '|='}`: "
                    + (f"raised {err}" if err else f"got {_fmt(got)} expected {_fmt(want)}"),
                    {"form": form, "class": cls.__name__, "counts": [{f"{k[0]}/{k[1]}": n for k, n in c.items()} for c in sets_counts]},
                )
    chk.sample({"merge_case": {"counts": [{f"{k[0]}/{k[1]}": n for k, n in c.items()} for c in sets_counts], "expected": _fmt(want)}})


def _merge_kind(sets_counts, keys) -> str:
    """Abstract shape of a merge scenario: do the operands share rules / keys?"""
    rules = [{k[0] for k in keys if c[k]} for c in sets_counts]
    kk = [{k for k in keys if c[k]} for c in sets_counts]
    shared_key = any(kk[i] & kk[j] for i in range(len(kk)) for j in range(i + 1, len(kk)))
    shared_rule = any(rules[i] & rules[j] for i in range(len(rules)) for j in range(i + 1, len(rules)))
    only_in_other = any((rules[j] - rules[i]) for i in range(len(rules)) for j in range(len(rules)) if i != j)
    return f"sharedKey={int(shared_key)},sharedRule={int(shared_rule)},disjointRule={int(only_in_other)},n={len(sets_counts)}"


def _fmt(d):
    if d is None:
        return None
    return {f"{k[0]}@{k[1]}": sorted(v.elements()) for k, v in sorted(d.items())}


# ------------------------------------------------------------------ documents
def sonar_entries():
    return [
        {"status": s, "hasRange": hr, "rule": r, "file": f}
        for s in ("OPEN", "TO_REVIEW", "RESOLVED") for hr in (True, False) for r in ("r1", "r2") for f in ("f1", "f2")
    ]


def _sonar_loc(tag: str, i: int, fi: int = 0):
    line = fi * 1000 + (100 if tag == "i" else 200) + i
    return {"startLine": line, "endLine": line, "startOffset": 4, "endOffset": 9}


def _sonar_json(doc, entries, fi: int = 0):
    out = {}
    for name, tag, part in (("issues", "i", doc[0]), ("hotspots", "h", doc[1])):
        shape, idxs = part
        if shape == "absent":
            continue
        if shape == "null":
            out[name] = None
        elif shape == "empty":
            out[name] = []
        else:
            lst = []
            for pos, ix in enumerate(idxs, 1):
                e = entries[ix - 1]
                # Sonar components are `<project key>:<path>`; the project key may be absent or itself contain colons
                prefix = ("proj:", "", "com.acme:webapp:")[(pos + len(idxs) + fi) % 3]
                item = {"key": f"{fi}-{tag}-{pos}" if fi else f"{tag}-{pos}", "status": e["status"], "component": f"{prefix}{FILES[e['file']]}", "message": "m"}
                item["rule" if tag == "i" else "ruleKey"] = SONAR_RULE[e["rule"]]
                if e["hasRange"]:
                    item["textRange"] = _sonar_loc(tag, pos, fi)
                lst.append(item)
            out[name] = lst
    return out


def _sonar_expected(exp: dict, with_file: bool):
    out = {}
    for (rule, file), seq in _d(exp).items():
        c = Counter()
        for f in seq:
            fid = f["id"]
            if with_file:
                fi, tag, pos = fid
                c[(f"{fi}-{tag}-{pos}", _sonar_loc(tag, pos, fi)["startLine"], 4, 9)] += 1
            else:
                tag, pos = fid
                c[(f"{tag}-{pos}", _sonar_loc(tag, pos)["startLine"], 4, 9)] += 1
        out[(SONAR_RULE[rule], FILES[file])] = c
    return {k: v for k, v in out.items() if v}


def _observed(rs):
    out = {}
    for rule, files in rs.items():
        for file, results in files.items():
            c = Counter()
            for r in results:
                loc = r.locations[0]
                c[(str(getattr(r, "finding_id", "")), loc.start.line, loc.start.column, loc.end.column)] += 1
            if c:
                out[(rule, str(file))] = c
    return out


def _sarif_doc(doc, entries):
    runs = []
    for ri, (tool, idxs) in enumerate(doc, 1):
        name = {"semgrep": "Semgrep OSS", "codeql": "CodeQL", "other": "SomeOtherScanner"}[tool]
        rules = [{"id": SARIF_RULE["r1"]}, {"id": SARIF_RULE["r2"]}]
        results = []
        for pos, ix in enumerate(idxs, 1):
            e = entries[ix - 1]
            line = ri * 100 + pos
            r = {
                "message": {"text": "m"},
                "locations": [{"physicalLocation": {"artifactLocation": {"uri": FILES[e["file"]]},
                                                    "region": {"startLine": line, "startColumn": 3, "endLine": line, "endColumn": 8}}}],
            }
            if e.get("also") == "otherfile":
                other = "f2" if e["file"] == "f1" else "f1"
                r["locations"].append({"physicalLocation": {"artifactLocation": {"uri": FILES[other]},
                                                            "region": {"startLine": line + 50, "startColumn": 3, "endLine": line + 50, "endColumn": 8}}})
            if e.get("also") == "samefile":
                r["locations"].append({"physicalLocation": {"artifactLocation": {"uri": FILES[e["file"]]},
                                                            "region": {"startLine": line + 50, "startColumn": 3, "endLine": line + 50, "endColumn": 8}}})
            if e["viaIndex"]:
                r["rule"] = {"index": 0 if e["rule"] == "r1" else 1, "toolComponent": {"index": 0}}
            else:
                r["ruleId"] = SARIF_RULE[e["rule"]]
            results.append(r)
        runs.append({"tool": {"driver": {"name": name, "rules": rules}, "extensions": [{"name": "ext", "rules": rules}]}, "results": results})
    return {"version": "2.1.0", "runs": runs}


def _sarif_expected(exp_tool: dict):
    out = {}
    for (rule, file), seq in _d(exp_tool).items():
        c = Counter()
        for f in seq:
            ri, pos = f["id"]
            c[(SARIF_RULE[rule], ri * 100 + pos, 3, 8)] += 1
        out[(SARIF_RULE[rule], FILES[file])] = c
    return {k: v for k, v in out.items() if v}


def _write(p: Path, doc, uid: int) -> None:
    """Every third document starts with a byte order mark (JSON exported on Windows): the same findings are in it."""
    p.write_text(("\ufeff" if uid % 3 == 0 else "") + json.dumps(doc), encoding="utf-8")


def check_docs(chk: Check) -> None:
    from codemodder.codemods.codeql import process_codeql_findings
    from codemodder.codemods.semgrep import process_semgrep_findings
    from codemodder.codeql import CodeQLResultSet
    from codemodder.sarifs import detect_sarif_tools
    from codemodder.semgrep import SemgrepResultSet
    from core_codemods.defectdojo.api import _process_results as process_dojo
    from core_codemods.defectdojo.results import DefectDojoResultSet
    from core_codemods.sonar.api import process_sonar_findings
    from core_codemods.sonar.results import SonarResultSet

    from .. import launcher

    s_entries = sonar_entries()
    n = len(s_entries)
    s_extra = set()
    for _ in range(chk.pick(40, 400)):
        s_extra.add(tuple(chk.rng.randrange(1, n + 1) for _ in range(chk.rng.choice([2, 2, 3]))))
    o = {e: i + 1 for i, e in enumerate(json.dumps(x, sort_keys=True) for x in s_entries)}

    def ix(status, hr, r, f):
        return o[json.dumps({"status": status, "hasRange": hr, "rule": r, "file": f}, sort_keys=True)]

    L, A, E_ = "list", ("absent", ()), ("empty", ())
    file_pool = [
        ((L, (ix("OPEN", True, "r1", "f1"),)), A),
        (A, (L, (ix("OPEN", True, "r1", "f1"),))),
        ((L, (ix("OPEN", True, "r2", "f2"),)), (L, (ix("TO_REVIEW", True, "r1", "f1"),))),
        (E_, (L, (ix("OPEN", True, "r1", "f2"), ix("OPEN", True, "r1", "f2")))),
        ((L, (ix("RESOLVED", True, "r1", "f1"),)), A),
        ((L, (ix("OPEN", True, "r1", "f1"), ix("OPEN", True, "r2", "f1"))), ("null", ())),
    ]
    sarif_entries = [{"rule": r, "file": f, "viaIndex": v, "also": a} for a in ("none", "otherfile", "samefile") for r in ("r1", "r2") for f in ("f1", "f2") for v in (False, True)]
    ne = len(sarif_entries)
    res_seqs = [()] + [(a,) for a in range(1, ne + 1)] + [(a, b) for a in range(1, ne + 1) for b in range(1, ne + 1)]
    sarif_docs = set()
    for tool in ("semgrep", "codeql", "other"):
        for rs_ in res_seqs:
            if len(rs_) < 2 or chk.rng.random() < chk.pick(0.25, 1.0):
                sarif_docs.add(((tool, rs_),))
    for t1, t2 in (("semgrep", "codeql"), ("codeql", "semgrep"), ("semgrep", "other"), ("other", "semgrep"), ("codeql", "other"), ("other", "codeql")):
        for _ in range(chk.pick(12, 80)):
            sarif_docs.add(((t1, chk.rng.choice(res_seqs)), (t2, chk.rng.choice(res_seqs))))
    dojo_entries = [{"rule": r, "file": f} for r in ("r1", "r2") for f in ("f1", "f2")]
    dojo_pool = [(), (1,), (1, 1), (2, 3), (4,), (1, 4)]

    def part_tla(p):
        return f'<<"{p[0]}", <<{", ".join(map(str, p[1]))}>>>>'

    data = {
        "SonarEntries": s_entries,
        "SonarExtraLists": s_extra,
        "SonarFilePool": gen.RawTla("<<" + ", ".join(f"<<{part_tla(a)}, {part_tla(b)}>>" for a, b in file_pool) + ">>"),
        "SarifEntries": sarif_entries,
        "SarifDocs": gen.RawTla("{" + ", ".join("<<" + ", ".join(f'<<"{t}", <<{", ".join(map(str, r))}>>>>' for t, r in d) + ">>" for d in sorted(sarif_docs)) + "}"),
        "DojoEntries": dojo_entries,
        "DojoFilePool": gen.RawTla("<<" + ", ".join("<<" + ", ".join(map(str, d)) + ">>" for d in dojo_pool) + ">>"),
    }
    res = gen.run_generator("Gen_Docs", "FindData", data)
    chk.add_tlc(res)
    base = Path(tempfile.mkdtemp(prefix="c12-", dir=scratch_root()))
    counter = itertools.count()
    sampled = set()
    for st in res.dump:
        if st["st"] != "done":
            continue
        sc, exp = st["sc"], st["exp"]
        kind = sc["kind"]
        chk.count()
        launcher.clear_caches()
        uid = next(counter)
        try:
            if kind == "sonar":
                doc = sc["doc"]
                p = base / f"s{uid}.json"
                _write(p, _sonar_json(doc, s_entries), uid)
                got = _observed(SonarResultSet.from_json(str(p)))
                want = _sonar_expected(exp["sonar"], False)
                shape = f"issues={doc[0][0]},hotspots={doc[1][0]}"
                if doc[0][0] == "list" or doc[1][0] == "list":
                    chk.nontrivial(("sonar", doc))
                _cmp(chk, "sonar-doc", shape, got, want, {"document": _sonar_json(doc, s_entries)})
            elif kind == "sonarfiles":
                paths = []
                for fi, di in enumerate(sc["doc"], 1):
                    p = base / f"sf{uid}-{fi}.json"
                    _write(p, _sonar_json(file_pool[di - 1], s_entries, fi), uid)
                    paths.append(str(p))
                alone_before = _observed(SonarResultSet.from_json(paths[0])) if len(paths) > 1 else None
                got = _observed(process_sonar_findings(tuple(paths)))
                want = _sonar_expected(exp["sonar"], True)
                chk.nontrivial(("sonarfiles", sc["doc"]))
                _cmp(chk, "sonar-files", f"n={len(paths)}", got, want, {"files": [json.loads(Path(p).read_text(encoding='utf-8-sig')) for p in paths]})
                if alone_before is not None:
                    # the same process goes on (no cache is cleared): what one file holds is not changed by having been
                    # merged with others, and the merge does not depend on the order of the command line
                    alone_after = _observed(SonarResultSet.from_json(paths[0]))
                    if alone_after != alone_before:
                        chk.violation("C12|sonar-files|first-file-altered-by-merge", f"the findings of {Path(paths[0]).name} alone differ after it was merged with {len(paths) - 1} other file(s) in the same process: "
                                      f"before {_fmt(alone_before)} after {_fmt(alone_after)}", {"files": [json.loads(Path(p).read_text(encoding='utf-8-sig')) for p in paths]})
                    rev = _observed(process_sonar_findings(tuple(reversed(paths))))
                    if rev != got:
                        chk.violation("C12|sonar-files|merge-depends-on-order", f"the same {len(paths)} files in reverse order give other findings: {_fmt(rev)} vs {_fmt(got)}",
                                      {"files": [json.loads(Path(p).read_text(encoding='utf-8-sig')) for p in paths]})
            elif kind == "sarif":
                p = base / f"r{uid}.sarif"
                docj = _sarif_doc(sc["doc"], sarif_entries)
                _write(p, docj, uid)
                tools = [t for t, _ in sc["doc"]]
                chk.nontrivial(("sarif", sc["doc"]))
                detected = detect_sarif_tools([p])
                want_tools = sorted({t for t in tools if t in ("semgrep", "codeql")})
                if sorted(detected) != want_tools:
                    chk.violation(f"C12|sarif-detect|{'+'.join(tools)}", f"SARIF with runs of {tools}: detected tools {sorted(detected)}, expected {want_tools}", {"document": docj})
                for tool, loader, proc in (("semgrep", SemgrepResultSet.from_sarif, process_semgrep_findings), ("codeql", CodeQLResultSet.from_sarif, process_codeql_findings)):
                    if tool not in tools:
                        continue
                    want = _sarif_expected(exp[tool])
                    for how, fn in (("from_sarif", lambda: loader(str(p))), ("process", lambda: proc((str(p),)))):
                        got_all = _observed(fn())
                        # foreign runs may or may not be visible in the set; the tool's own findings must be intact
                        own_lines = {ln for c in want.values() for (_, ln, _, _) in c}
                        got = {}
                        for k, c in got_all.items():
                            cc = Counter({x: m for x, m in c.items() if x[1] in own_lines or (x[1] // 100) == (tools.index(tool) + 1)})
                            if cc:
                                got[k] = cc
                        _cmp(chk, f"sarif-{tool}-{how}", "+".join(tools), got, want, {"document": docj})
            elif kind == "dojofiles":
                paths = []
                for fi, di in enumerate(sc["doc"], 1):
                    items = []
                    for pos, eix in enumerate(dojo_pool[di - 1], 1):
                        e = dojo_entries[eix - 1]
                        items.append({"id": fi * 100 + pos, "title": DOJO_RULE[e["rule"]], "file_path": FILES[e["file"]], "line": fi * 10 + pos})
                    p = base / f"d{uid}-{fi}.json"
                    _write(p, {"results": items}, uid)
                    paths.append(str(p))
                rs = process_dojo(tuple(paths))
                got = {}
                for rule, files in rs.items():
                    for file, results in files.items():
                        c = Counter((str(r.finding_id), r.locations[0].start.line) for r in results)
                        if c:
                            got[(rule, str(file))] = c
                want = {}
                for (rule, file), seq in _d(exp["dojo"]).items():
                    want[(DOJO_RULE[rule], FILES[file])] = Counter((str(f["id"][0] * 100 + f["id"][1]), f["id"][0] * 10 + f["id"][1]) for f in seq)
                want = {k: v for k, v in want.items() if v}
                chk.nontrivial(("dojo", sc["doc"]))
                _cmp(chk, "dojo-files", f"n={len(paths)}", got, want, {"files": [json.loads(Path(p).read_text(encoding='utf-8-sig')) for p in paths]})
        except Exception as ex:  # noqa: BLE001 - a loader that raises loses every finding of the file(s)
            chk.violation(f"C12|{kind}|raises|{type(ex).__name__}", f"{kind} scenario {sc['doc']}: loader raised {type(ex).__name__}: {ex}", {"scenario": str(sc)})
        if kind not in sampled:
            sampled.add(kind)
            chk.sample({"kind": kind, "abstract_document": str(sc["doc"])[:300]})
    import shutil

    shutil.rmtree(base, ignore_errors=True)


def _cmp(chk: Check, what: str, shape: str, got: dict, want: dict, replay: dict) -> None:
    if got == want:
        return
    lost = {k: list((want[k] - got.get(k, Counter())).elements()) for k in want if want[k] - got.get(k, Counter())}
    extra = {k: list((got[k] - want.get(k, Counter())).elements()) for k in got if got[k] - want.get(k, Counter())}
    kind = "lost" if lost and not extra else ("spurious" if extra and not lost else "altered")
    chk.violation(
        f"C12|{what}|{shape}|{kind}",
        f"{what} ({shape}): findings {kind}: missing={ {f'{k[0]}@{k[1]}': v for k, v in lost.items()} } unexpected={ {f'{k[0]}@{k[1]}': v for k, v in extra.items()} }",
        replay,
    )


# ------------------------------------------------------------------ end to end
PROGRAM = "import random\n\nrandom.random()\n\nrandom.random()\nx = 1\nrandom.random()\n"
SITES = [3, 5, 7]


def _issue(line, key, kind="issues"):
    d = {"key": key, "status": "OPEN", "component": "proj:app.py", "message": "m",
         "textRange": {"startLine": line, "endLine": line, "startOffset": 0, "endOffset": 15}}
    d["rule" if kind == "issues" else "ruleKey"] = "python:S2245"
    return d


def check_e2e(chk: Check) -> None:
    scenarios = []

    def add(sid, resfiles, argv_extra, meta):
        scenarios.append({
            "id": sid, "files": {"app.py": PROGRAM}, "resfiles": resfiles,
            "steps": [{"argv": ["{dir}", "--output", "{out}", "--codemod-include", "sonar:python/secure-random"] + argv_extra,
                       "site_lines": {"app.py": SITES}, "expect": {"siteMay": {"app.py": SITES}, "siteMust": {"app.py": SITES}}}],
            "_meta": meta,
        })

    # three findings split over two files of the same option, in both orders, issues and hotspots options
    for opt, part in (("--sonar-issues-json", "issues"), ("--sonar-hotspots-json", "hotspots")):
        for split in ((1, 2), (2, 1)):
            a = {part: [_issue(SITES[i], f"a{i}", part) for i in range(split[0])]}
            b = {part: [_issue(SITES[i], f"b{i}", part) for i in range(split[0], 3)]}
            for order in (("a.json", "b.json"), ("b.json", "a.json")):
                add(f"C12-e2e-{part}-{split[0]}-{order[0]}", {"a.json": a, "b.json": b},
                    [opt, ",".join("{res}/" + o for o in order)], {"kind": "two-files", "option": opt, "split": split, "order": order})
    # one document with issues and hotspots
    doc = {"issues": [_issue(SITES[0], "i0")], "hotspots": [_issue(SITES[1], "h1", "hotspots"), _issue(SITES[2], "h2", "hotspots")]}
    add("C12-e2e-both-parts", {"d.json": doc}, ["--sonar-issues-json", "{res}/d.json"], {"kind": "issues+hotspots in one document"})
    # issues file + hotspots file
    add("C12-e2e-two-options", {"i.json": {"issues": [_issue(SITES[0], "i0")]}, "h.json": {"hotspots": [_issue(SITES[1], "h1", "hotspots"), _issue(SITES[2], "h2", "hotspots")]}},
        ["--sonar-issues-json", "{res}/i.json", "--sonar-hotspots-json", "{res}/h.json"], {"kind": "issues file + hotspots file"})
    results = runner.run_many(scenarios)
    traces = [r["steps"][0]["trace"] for r in results]
    verdicts, stats = tracecheck.validate(traces)
    for s in stats:
        chk.add_tlc(s)
    chk.coverage["traces_validated_against_impl"] += len(traces)
    for scn, r in zip(scenarios, results):
        st = r["steps"][0]
        chk.count()
        chk.nontrivial(("e2e", scn["id"]))
        v = [c for c in verdicts[st["trace"]["id"]] if c.startswith(("RunEnd:permitted-site", "FileEnd:site", "RunEnd:uncaught", "CodemodEnd:exception"))]
        if v:
            fixed = sorted(s for e in st["trace"]["events"] if e["ev"] == "FileEnd" for s in e["sites"])
            m = scn["_meta"]
            chk.violation(f"C12|e2e|{m['kind']}|{m.get('option', '')}", f"findings on sites {SITES} given as {m}: sites fixed {fixed}; {v}",
                          {"resfiles": scn["resfiles"], "argv": scn["steps"][0]["argv"], "verdict": v})


def run(chk: Check) -> None:
    check_merge(chk)
    check_docs(chk)
    check_e2e(chk)
    chk.assumptions += [
        "a finding 'with a location' is a Sonar entry with textRange / a SARIF result with a region / a DefectDojo finding with a line",
        "entries of foreign SARIF runs may remain visible in a tool's result set as long as the tool's own findings are intact",
        "two runs of the same tool in one SARIF file are not generated (rejected by design: duplicate tool)",
    ]


def replay(data: dict) -> int:
    print(json.dumps(data, indent=1)[:4000])
    return 0
