"""C05 - exactly the files selected by the include/exclude patterns are touched.

Gen_PathFilter.tla enumerates include lists x exclude lists x mode over a fixed universe tree (nested dirs, test /
build / venv / VCS dirs, conftest, site-packages, a non-Python file, a symlinked file and a symlinked directory that
point into a sibling tree) and computes with PathFilter.tla which files MAY and which MUST change.
API level (every scenario): the files the real codemod objects would process (`get_files_to_analyze` on a real
`CodemodExecutionContext`).  End to end (sample): the real CLI on the materialised tree, judged by Trace_Run
(changed files within MAY, MUST files changed, outside tree untouched).
"""
from __future__ import annotations

import json
import os
import shutil
import tempfile
from pathlib import Path

from .. import gen, runner, tracecheck
from ..common import Check, scratch_root
from ..tlaval import cps

LEVEL = "model_checking"
RULE = ('cases = Gen_PathFilter/Globs.tla (include, exclude) pattern lists over a tree of paths, plus end-to-end CLI runs; non-trivial when at least one pattern is given and the lists select a proper, non-empty part of the tree; distinct = distinct (mode, include, exclude)')

FF_TRIGGER = "x = set([1, 2])\n"
SAST_TRIGGER = "import random\nrandom.random()\n"

# rel, isPy, symlink, pinned, dontcare
TREE = [
    ("a.py", True, False, False, False),
    ("src/b.py", True, False, False, False),
    ("src/deep/c.py", True, False, False, False),
    ("src/bb.py", True, False, False, False),
    ("tests/test_a.py", True, False, True, False),
    ("src/tests/test_b.py", True, False, False, True),
    ("build/gen.py", True, False, True, False),
    ("venv/lib/x.py", True, False, True, False),
    (".git/hooks/h.py", True, False, True, False),
    ("conftest.py", True, False, False, True),
    ("src/conftest.py", True, False, False, True),
    ("lib/site-packages/p.py", True, False, False, True),
    (".cfg/d.py", True, False, False, True),
    ("cfg/d.py", True, False, False, False),
    ("notes.txt", False, False, False, False),
    ("link.py", True, True, False, False),
    ("linkdir/x.py", True, True, False, False),
    # a directory symlink that stays INSIDE the project and names a directory excluded by default
    ("aliasdir/test_a.py", True, True, False, False),
]
PATS = [
    "*.py", "**/*.py", "src/*", "src/**", "src/b.py", "*/b.py", "tests/**", "*b*", "?.py", "nomatch/*",
    "src/b.py:2", "*.py:1", "a.py", "src/deep/*", "**", "*.txt", "linkdir/*", "link.py",
    # spellings with a leading "./" (they name nothing: patterns are matched against paths relative to the directory)
    "./.cfg/*", ".cfg/*", "./src/*", "./a.py", "cfg/*",
]


def tree_files(trigger: str) -> tuple[dict, dict]:
    files, outside = {}, {"o.py": trigger, "od/x.py": trigger}
    for rel, *_ in TREE:
        if rel == "link.py":
            files[rel] = {"symlink": "../outside/o.py"}
        elif rel == "linkdir/x.py":
            files["linkdir"] = {"symlink": "../outside/od"}
        elif rel == "aliasdir/test_a.py":
            files["aliasdir"] = {"symlink": "tests"}
        else:
            files[rel] = trigger
    return files, outside


def sonar_doc(paths) -> dict:
    return {
        "issues": [
            {"rule": "python:S2245", "status": "OPEN", "component": f"proj:{p}", "key": f"k{i}",
             "textRange": {"startLine": 2, "endLine": 2, "startOffset": 0, "endOffset": 15}}
            for i, p in enumerate(paths)
        ]
    }


SEM_TRIGGER = 'import requests\nrequests.get("http://example.com", verify=False)\n'


def _argv(mode, inc, exc, semgrep=False):
    argv = ["{dir}", "--output", "{out}"]
    if mode == "ff" and semgrep:
        argv += ["--codemod-include", "pixee:python/requests-verify"]
    elif mode == "ff":
        argv += ["--codemod-include", "pixee:python/use-set-literal"]
    else:
        argv += ["--codemod-include", "sonar:python/secure-random", "--sonar-issues-json", "{res}/sonar.json"]
    if inc:
        argv += ["--path-include", ",".join(inc)]
    if exc:
        argv += ["--path-exclude", ",".join(exc)]
    return argv


def run(chk: Check) -> None:
    import logging

    from codemodder import providers as prov
    from codemodder import registry as reg_mod
    from codemodder.context import CodemodExecutionContext
    from codemodder.project_analysis.python_repo_manager import PythonRepoManager
    from core_codemods.sonar.results import SonarResultSet

    npat = len(PATS)
    extra = set()
    for _ in range(chk.pick(300, 3000)):
        mode = chk.rng.choice(["ff", "sast"])
        inc = tuple(chk.rng.randrange(1, npat + 1) for _ in range(chk.rng.choice([0, 1, 2, 2, 3])))
        exc = tuple(chk.rng.randrange(1, npat + 1) for _ in range(chk.rng.choice([0, 1, 2, 2, 3])))
        extra.add((("mode", mode), ("inc", inc), ("exc", exc)))
    data = {
        "Tree": [{"rel": cps(r), "isPy": py, "symlink": sl, "pinned": pin, "dontcare": dc} for r, py, sl, pin, dc in TREE],
        "Pats": [cps(p) for p in PATS],
        "TrigLine": {"ff": 1, "sast": 2},
        "MaxInc": gen.RawTla("1"),
        "MaxExc": gen.RawTla(chk.pick("1", "2")),
        "ExtraScenarios": gen.RawTla(
            "{" + ", ".join(
                f'[mode |-> "{dict(e)["mode"]}", inc |-> <<{", ".join(map(str, dict(e)["inc"]))}>>, exc |-> <<{", ".join(map(str, dict(e)["exc"]))}>>]'
                for e in sorted(extra)
            ) + "}"
        ),
    }
    res = gen.run_generator("Gen_PathFilter", "PathData", data)
    chk.add_tlc(res)
    cases = [(st["sc"], st["exp"]) for st in res.dump if st["exp"]["may"] != frozenset({0})]
    cases.sort(key=lambda c: (c[0]["mode"], len(c[0]["inc"]) + len(c[0]["exc"]), c[0]["inc"], c[0]["exc"]))

    # ---------------------------------------------------------------- API level, every scenario
    base = Path(tempfile.mkdtemp(prefix="c05-", dir=scratch_root()))
    rels = [t[0] for t in TREE]
    ctx_dirs = {}
    for mode, trig in (("ff", FF_TRIGGER), ("sast", SAST_TRIGGER)):
        files, outside = tree_files(trig)
        root = base / mode / "target"
        root.mkdir(parents=True)
        (base / mode / "outside").mkdir()
        runner.write_tree(base / mode / "outside", outside)
        runner.write_tree(root, files)
        ctx_dirs[mode] = root
    sonar_json = base / "sonar.json"
    sonar_json.write_text(json.dumps(sonar_doc(rels)))
    registry = reg_mod.load_registered_codemods()
    providers = prov.load_providers()
    ff_codemod = registry.match_codemods(["pixee:python/use-set-literal"])[0]
    sast_codemod = registry.match_codemods(["sonar:python/secure-random"])[0]
    sonar_results = SonarResultSet.from_json(str(sonar_json))
    logging.getLogger("codemodder").setLevel(logging.ERROR)
    for sc, exp in cases:
        mode = sc["mode"]
        inc = [PATS[i - 1] for i in sc["inc"]]
        exc = [PATS[i - 1] for i in sc["exc"]]
        root = ctx_dirs[mode]
        ctx = CodemodExecutionContext(root, True, False, registry, providers, PythonRepoManager(root), inc, exc, {"sonar": [str(sonar_json)]}, 1)
        if mode == "ff":
            got = ff_codemod.get_files_to_analyze(ctx, None)
        else:
            got = sast_codemod.get_files_to_analyze(ctx, sonar_results)
        got_rel = {str(Path(p).relative_to(root)) for p in got}
        may = {rels[k - 1] for k in exp["may"]}
        must = {rels[k - 1] for k in exp["must"]}
        chk.count()
        if inc or exc:
            chk.nontrivial((mode, sc["inc"], sc["exc"]))
        bad_extra = sorted(got_rel - may)
        bad_missing = sorted(must - got_rel)
        if bad_extra or bad_missing:
            chk.violation(
                _sig(mode, inc, exc, bad_extra, bad_missing, "api"),
                f"{mode} codemod, --path-include={inc} --path-exclude={exc}: files to process differ from the reference: "
                f"not selected but processed={bad_extra[:5]}, selected but skipped={bad_missing[:5]}",
                {"mode": mode, "include": inc, "exclude": exc, "would_process": sorted(got_rel), "may": sorted(may), "must": sorted(must)},
            )
    shutil.rmtree(base, ignore_errors=True)

    # ---------------------------------------------------------------- end to end sample, judged by Trace_Run
    pool = list(cases)
    chk.rng.shuffle(pool)
    # always include the default runs of both modes
    empty_sel = [c for c in cases if c[0]["mode"] == "ff" and not c[1]["may"] - frozenset()][:12]
    e2e = [c for c in cases if not c[0]["inc"] and not c[0]["exc"]] + empty_sel * 1 + pool[: chk.pick(140, 1500)]
    # put the empty selections where the rule-detected codemod is used (every sixth)
    for j, c in enumerate(empty_sel):
        pos = 6 * (j + 1)
        if pos < len(e2e):
            e2e.insert(pos, c)
    scenarios = []
    for k, (sc, exp) in enumerate(e2e):
        mode = sc["mode"]
        inc = [PATS[i - 1] for i in sc["inc"]]
        exc = [PATS[i - 1] for i in sc["exc"]]
        # every sixth find-and-fix scenario uses a rule-detected codemod (its rule engine sees the tree as well);
        # its trigger sits on line 2, like the SAST one, so it is only used where the line-level expectation agrees
        sem = mode == "ff" and k % 6 == 0 and not any(":" in p for p in inc + exc)
        files, outside = tree_files(SEM_TRIGGER if sem else (FF_TRIGGER if mode == "ff" else SAST_TRIGGER))
        scenarios.append(
            {
                "id": f"C05-{k}",
                "files": files,
                "outside": outside,
                "resfiles": {"sonar.json": sonar_doc(rels)} if mode == "sast" else {},
                "steps": [{"argv": _argv(mode, inc, exc, sem),
                           "expect": {"mayChange": [rels[i - 1] for i in exp["may"]], "mustChange": [rels[i - 1] for i in exp["must"]]}}],
                "_meta": {"mode": mode + ("/rule-detected" if sem else ""), "include": inc, "exclude": exc},
            }
        )
    # many selected files with long paths, a rule-detected codemod: every one of them must be fixed
    many = {f"package_with_a_rather_long_directory_name/sub_package_{i // 20:03d}/module_with_a_long_file_name_{i:04d}.py": SEM_TRIGGER for i in range(chk.pick(560, 900))}
    scenarios.append({"id": "C05-many", "files": many, "outside": {}, "resfiles": {},
                      "steps": [{"argv": _argv("ff", [], [], True), "expect": {"mayChange": sorted(many), "mustChange": sorted(many)}}],
                      "_meta": {"mode": "ff/rule-detected/many-files", "include": [], "exclude": []}})
    # a dependency manifest that is a symbolic link to a file outside of the project: it must not be written through
    scenarios.append({"id": "C05-symlink-manifest", "files": {"app.py": "import requests\n\n\ndef f(u):\n    requests.get(u)\n", "requirements.txt": {"symlink": "../outside/reqs.txt"}},
                      "outside": {"reqs.txt": "requests\n"}, "resfiles": {},
                      "steps": [{"argv": ["{dir}", "--output", "{out}", "--codemod-include", "pixee:python/url-sandbox"], "expect": {"mayChange": ["app.py"], "mustChange": ["app.py"]}}],
                      "_meta": {"mode": "ff/symlinked-manifest", "include": [], "exclude": []}})
    results = runner.run_many(scenarios, chunksize=2)
    traces = [r["steps"][0]["trace"] for r in results]
    verdicts, stats = tracecheck.validate(traces, batch=500)
    for s in stats:
        chk.add_tlc(s)
    chk.coverage["traces_validated_against_impl"] += len(traces)
    for scn, r in zip(scenarios, results):
        st = r["steps"][0]
        m = scn["_meta"]
        chk.count()
        chk.nontrivial(("e2e", m["mode"], tuple(m["include"]), tuple(m["exclude"])))
        v = [c for c in verdicts[st["trace"]["id"]] if c.startswith(("FileEnd:file-not-selected", "RunEnd:selected-file", "RunEnd:unselected", "RunEnd:outside", "RunEnd:tree-changed", "RunEnd:uncaught"))]
        if v:
            exp = scn["steps"][0]["expect"]
            extra_f = sorted(set(st["changed_files"]) - set(exp["mayChange"]))
            missing_f = sorted(set(exp["mustChange"]) - set(st["changed_files"]))
            chk.violation(
                _sig(m["mode"], m["include"], m["exclude"], extra_f, missing_f, "e2e"),
                f"CLI {m['mode']} run --path-include={m['include']} --path-exclude={m['exclude']}: {sorted(set(v))}; "
                f"changed but not selected={extra_f[:5]} selected but not fixed={missing_f[:5]}",
                {"argv": scn["steps"][0]["argv"], "changed": st["changed_files"], "expect": exp, "verdict": v},
            )
    chk.sample({"scenario": e2e[-1][0], "patterns": PATS, "may": [rels[i - 1] for i in e2e[-1][1]["may"]]})
    chk.assumptions += [
        "root-level test/tests/build/dist/venv/.venv/.git are what 'excluded by default' must mean; other default entries "
        "(conftest.py, site-packages, nested tests dirs) and defaults combined with a user exclude list: either outcome accepted",
        "a non-Python file explicitly matched by an include pattern may, but need not, be processed",
        "glob character classes `[...]` are not generated",
    ]


def _sig(mode, inc, exc, extra, missing, level) -> str:
    return f"C05|{level}|{mode}|inc={','.join(inc)}|exc={','.join(exc)}|extra={','.join(extra[:3])}|missing={','.join(missing[:3])}"


def replay(data: dict) -> int:
    print(json.dumps(data, indent=1)[:4000])
    return 0
