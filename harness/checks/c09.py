"""C09 - a multi-codemod run equals running the same codemods one at a time, in order.

ProgramSpace vectors with queues of 2..3 codemods (same file, same line, same manifest; every order) are run as one
batch invocation and, on a restored copy, as a chain of single-codemod invocations on the evolving tree.  Every trace
is validated by Trace_Run; Compare events carry: final trees equal, and for each codemod the batch result (changesets,
failed files, dependency notice in the description) equals the result of its own invocation.  MC_Run shows that in the
design the aggregates of a codemod depend only on its own steps.  Thorough adds the whole default selection on a
project holding every program.
"""
from __future__ import annotations

import json

from .. import runspace, space
from ..common import Check

LEVEL = "model_checking"
RULE = ('cases = ProgramSpace.tla vectors with queues of 2..3 codemods run as one batch and as a chain; every case is non-trivial (each queue holds codemods that trigger on the program); distinct = distinct vectors')


def _result_view(rep, cid):
    for r in (rep or {}).get("results", []):
        if r["codemod"] == cid:
            d = rep.get("run", {}).get("directory", "")
            return {
                "changeset": [{"path": c["path"], "diff": c["diff"], "changes": [(x["lineNumber"], x.get("description")) for x in c["changes"]]} for c in r["changeset"]],
                "failed": sorted(p[len(d) + 1:] if d and p.startswith(d + "/") else p for p in r.get("failedFiles", [])),
                "description": r["description"],
                "unfixed": len(r.get("unfixedFindings") or []),
            }
    return None


def run(chk: Check) -> None:
    vectors = [v for v in runspace.enumerate_vectors(chk) if len(v["queue"]) >= 2 and not v["dryRun"] and v["workers"] == 1]
    sample = runspace.sample_covering(chk, vectors, chk.pick(28, 700), dims=("program", "layout", "manifest"))
    # two codemods that need the same package, with one or several manifests to put it in
    shared = [v for v in vectors if v["program"] == "both" and v["layout"] == "lf" and v["manifest"] != "none"
              and {"pixee:python/url-sandbox", "pixee:python/sandbox-process-creation"} <= set(v["queue"])]
    shared.sort(key=runspace.vkey)
    sample += [v for v in shared if v not in sample][: chk.pick(10, 80)]
    # a manifest that is also a source with a trigger: an earlier codemod adds the dependency to setup.py, a later one rewrites it
    stp = [v for v in vectors if v["manifest"] == "setuppy-trigger" and v["layout"] == "lf" and "pixee:python/use-set-literal" in v["queue"]
           and v["queue"][-1] == "pixee:python/use-set-literal" and len(v["queue"]) == 2]
    stp.sort(key=runspace.vkey)
    sample += [v for v in stp if v not in sample][: chk.pick(6, 60)]
    scenarios = []
    for i, v in enumerate(sample):
        steps = [{"argv": runspace.argv_for(v), "keep_after": True}]
        for k, c in enumerate(v["queue"]):
            one = dict(v, queue=[c])
            steps.append({"argv": runspace.argv_for(one), "fresh": k == 0, "keep_after": k == len(v["queue"]) - 1})
        scenarios.append(runspace.scenario_for(v, f"C09-{i}", steps, extra_copies=1))
    # rule-detected codemods over files in directories the rule engine skips by default when it walks a directory
    # itself (vendor/, build/, ...): batch and chain must agree; run from a working directory above the project
    trig = "import requests\nimport random\n\nrequests.get(u, verify=False)\nx = random.random()\n"
    ign_files = {"main.py": trig, "vendor/lib.py": trig, "build/gen.py": trig, "third_party/x/y.py": trig}
    for i, q in enumerate((["pixee:python/requests-verify", "pixee:python/secure-random"], ["pixee:python/secure-random", "pixee:python/requests-verify"])):
        v = {"program": "ignored-dirs", "layout": "lf", "manifest": "none", "queue": q, "dryRun": False, "workers": 1}
        inc = ["{dir}", "--output", "{out}", "--codemod-include"]
        steps = [{"argv": inc + [",".join(q)], "keep_after": True, "cwd": "{work}"}]
        for k, c in enumerate(q):
            steps.append({"argv": inc + [c], "fresh": k == 0, "keep_after": k == len(q) - 1, "cwd": "{work}"})
        scenarios.append({"id": f"C09-ign{i}", "files": ign_files, "steps": steps, "_v": v})
    # a file no codemod can parse, next to files two codemods rewrite: every codemod of the batch reports it as failed,
    # exactly as its own invocation does
    bad_files = {"app.py": "x = set([1, 2])\nassert (1, 'm')\n\n\ndef f(v=[]):\n    return v\n", "legacy.py": "print \"item:\", item\n", "pkg/broken.py": "def broken(:\n    pass\n"}
    for i, q in enumerate((["pixee:python/fix-mutable-params", "pixee:python/use-set-literal"], ["pixee:python/use-set-literal", "pixee:python/fix-assert-tuple", "pixee:python/fix-mutable-params"])):
        v = {"program": "unparseable-files", "layout": "lf", "manifest": "none", "queue": q, "dryRun": False, "workers": 1}
        inc = ["{dir}", "--output", "{out}", "--codemod-include"]
        steps = [{"argv": inc + [",".join(q)], "keep_after": True}]
        for k, c in enumerate(q):
            steps.append({"argv": inc + [c], "fresh": k == 0, "keep_after": k == len(q) - 1})
        scenarios.append({"id": f"C09-bad{i}", "files": bad_files, "steps": steps, "_v": v})
    if not chk.quick:
        # the whole default selection over a project holding every program, against the chain of the same codemods
        files = {f"{name}/app.py": text for name, text in space.PROGRAMS.items()}
        files.update(space.MANIFESTS["requirements"])
        scenarios.append({"id": "C09-default", "files": files, "_v": {"program": "*", "layout": "lf", "manifest": "requirements", "queue": ["<default selection>"], "dryRun": False, "workers": 1},
                          "steps": [{"argv": ["{dir}", "--output", "{out}"], "keep_after": True, "keep_events": True}], "_default": True})

    # enabling pairs: K1's fix creates a trigger of K2 (recorded ones; thorough measures them afresh on all seeds)
    from .. import enabling, seeds as seeds_mod

    # Prefilter.tla: with one scan gating every codemod, batch = chain PROVIDED no fix creates a trigger of a later
    # codemod; the pairs below are the measurement of that proviso on the real registry
    from .. import tlc as tlc_mod

    pres = tlc_mod.run_tlc(tlc_mod.SPEC_DIR, "Prefilter", "Prefilter.cfg")
    if pres.violated:
        raise tlc_mod.TlcFailure(f"Prefilter.tla: {pres.violated[0][:2]}")
    chk.add_tlc(pres)
    pairs = enabling.recorded() if chk.quick else enabling.find_pairs(per_codemod=1000)
    by_key = {s.key: s for s in seeds_mod.load()}
    for i, p in enumerate(pairs[: chk.pick(12, 400)]):
        s = by_key.get(p["seed"])
        if s is None:
            continue
        for q in ([p["k1"], p["k2"]], [p["k2"], p["k1"]]):
            v = {"program": f"seed:{p['seed'].split('|')[-1]}", "layout": "lf", "manifest": "none", "queue": q, "dryRun": False, "workers": 1}
            inc = ["{dir}", "--output", "{out}", "--codemod-include"]
            steps = [{"argv": inc + [",".join(q)], "keep_after": True}]
            for k, c in enumerate(q):
                steps.append({"argv": inc + [c], "fresh": k == 0, "keep_after": k == len(q) - 1})
            scenarios.append({"id": f"C09-en{i}-{q[0].split('/')[-1]}", "files": {"code.py": s.input}, "steps": steps, "_v": v, "_copies": 1})
    chk.coverage["enabling_pairs"] = len(pairs)

    def post(scn, res):
        if scn.get("_default"):
            return
        v = scn["_v"]
        batch = res["steps"][0]
        chain = res["steps"][1:]
        same_tree = batch["after"] == chain[-1]["after"]
        diffs = []
        for k, c in enumerate(v["queue"]):
            a, b = _result_view(batch["report"], c), _result_view(chain[k]["report"], c)
            if a != b:
                diffs.append(c.split("/")[-1])
        ev = batch["trace"]["events"]
        ev.append({"ev": "Compare", "what": "tree-after-batch-run-differs-from-chain-of-single-runs", "equal": bool(same_tree)})
        ev.append({"ev": "Compare", "what": "per-codemod-result-of-batch-run-differs-from-single-run", "equal": not diffs})
        batch["_diffs"] = diffs

    out = runspace.run_and_validate(chk, [s for s in scenarios if not s.get("_default")], post)
    for scn, res, verdicts in out:
        v = scn["_v"]
        batch = res["steps"][0]
        chk.count()
        chk.nontrivial(runspace.vkey(v))
        bad = sorted({c for st in res["steps"] for c in verdicts[st["trace"]["id"]] if c.startswith(("Compare:", "RunEnd:", "CodemodEnd:", "inv:C15", "ReportBuilt:", "Merge:"))})
        if bad:
            q = ">".join(c.split("/")[-1] for c in v["queue"])
            chk.violation(f"C09|{v['program']}|{q}|manifest={v['manifest']}|{'+'.join(b[:60] for b in bad)}",
                          f"{runspace.vkey(v)}: {bad}; codemods whose result differs: {batch.get('_diffs')}",
                          {"vector": v, "files": scn["files"], "steps": [s["argv"] for s in scn["steps"]], "verdict": bad})
    if not chk.quick:
        _default_chain(chk, [s for s in scenarios if s.get("_default")][0])
    chk.sample({"vector": sample[0], "steps": [s["argv"] for s in scenarios[0]["steps"]]})
    chk.assumptions += ["results are compared on changesets (path, diff, change lines and descriptions), failed files, description and number of unfixed findings",
                        "an 'enabling' pair (an earlier codemod creating a trigger for a later rule-detected one) found in the corpus is reported as a violation"]


def _default_chain(chk: Check, scn: dict) -> None:
    from .. import runner, tracecheck

    first = runner.run_many([scn])[0]["steps"][0]
    queue = [e["ids"] for e in first["events"] if e["ev"] == "Selected"][0]
    steps = [{"argv": ["{dir}", "--output", "{out}", "--codemod-include", c], "keep_after": k == len(queue) - 1} for k, c in enumerate(queue)]
    chain_scn = {"id": "C09-default-chain", "files": scn["files"], "steps": steps}
    # the chain is sequential by nature: one worker process
    chain = runner.run_many([chain_scn])[0]["steps"]
    same_tree = first["after"] == chain[-1]["after"]
    diffs = [c for k, c in enumerate(queue) if _result_view(first["report"], c) != _result_view(chain[k]["report"], c)]
    tr = first["trace"]
    tr["events"].append({"ev": "Compare", "what": "tree-after-batch-run-differs-from-chain-of-single-runs", "equal": bool(same_tree)})
    tr["events"].append({"ev": "Compare", "what": "per-codemod-result-of-batch-run-differs-from-single-run", "equal": not diffs})
    verdicts, stats = tracecheck.validate([tr] + [s["trace"] for s in chain])
    for s in stats:
        chk.add_tlc(s)
    chk.coverage["traces_validated_against_impl"] += 1 + len(chain)
    chk.count()
    chk.nontrivial(("default-selection", len(queue)))
    bad = [c for c in verdicts[tr["id"]] if c.startswith(("Compare:", "RunEnd:", "CodemodEnd:"))]
    if bad:
        chk.violation(f"C09|default-selection|{'+'.join(bad)}|{','.join(d.split('/')[-1] for d in diffs[:4])}",
                      f"default selection ({len(queue)} codemods) on the all-programs project: {bad}; differing codemods: {diffs}", {"queue": queue, "differs": diffs})


def replay(data: dict) -> int:
    print(json.dumps(data, indent=1)[:4000])
    return 0
