"""Materialise concrete scenarios, run the real codemodder on them (process pool), project to abstract traces."""
from __future__ import annotations

import base64
import json
import multiprocessing as mp
import os
import shutil
import tempfile
import traceback
from pathlib import Path

from . import project
from .common import MachineryFailure, scratch_root

_worker_dir: str | None = None
_schema_check = None


def _init_worker(base: str) -> None:
    import faulthandler
    import signal

    faulthandler.register(signal.SIGUSR1, all_threads=True)  # `kill -USR1 <worker>` prints where it is
    global _worker_dir
    _worker_dir = tempfile.mkdtemp(prefix=f"wk-{os.getpid()}-", dir=base)
    tmp = os.path.join(_worker_dir, "tmp")
    os.makedirs(tmp, exist_ok=True)
    os.environ["TMPDIR"] = tmp
    tempfile.tempdir = tmp
    # keep codemodder quiet about AI clients unless a scenario sets them
    for k in list(os.environ):
        if k.startswith("CODEMODDER_"):
            os.environ.pop(k)


def _get_schema_check():
    global _schema_check
    if _schema_check is None:
        from . import codetf_schema

        _schema_check = codetf_schema.check
    return _schema_check


def _bag_check(expect: dict | None):
    if not expect:
        return None
    from . import deltas

    return deltas.checker(expect)


def write_tree(root: Path, files: dict) -> None:
    """files: rel -> str | {"b64": ...} | {"symlink": target} | {"dir": True}.  Insertion order = creation order."""
    for rel, spec in files.items():
        p = root / rel
        p.parent.mkdir(parents=True, exist_ok=True)
        if isinstance(spec, str):
            p.write_bytes(spec.encode("utf-8", "surrogateescape"))
        elif "b64" in spec:
            p.write_bytes(base64.b64decode(spec["b64"]))
        elif "symlink" in spec:
            os.symlink(spec["symlink"], p)
        elif spec.get("dir"):
            p.mkdir(parents=True, exist_ok=True)


def _subst(s: str, m: dict) -> str:
    for k, v in m.items():
        s = s.replace("{" + k + "}", v)
    return s


def _restore(root: Path, files: dict) -> None:
    for child in list(root.iterdir()):
        if child.is_dir() and not child.is_symlink():
            shutil.rmtree(child)
        else:
            child.unlink()
    write_tree(root, files)


def run_scenario(sc: dict) -> dict:
    """Run all steps of one scenario in this process.  Never raises: machinery errors are returned."""
    try:
        return _run_scenario(sc)
    except BaseException as ex:  # noqa: BLE001
        return {"id": sc.get("id"), "machinery_error": f"{type(ex).__name__}: {ex}\n{traceback.format_exc()[-1500:]}"}


def _run_scenario(sc: dict) -> dict:
    from . import launcher

    base = _worker_dir or scratch_root()
    work = Path(tempfile.mkdtemp(prefix="sc-", dir=base))
    try:
        target = work / sc.get("target_name", "target")
        outside = work / "outside"
        res = work / "res"
        for d in (target, outside, res):
            d.mkdir()
        write_tree(outside, sc.get("outside", {}))
        write_tree(target, sc["files"])
        for name, text in sc.get("resfiles", {}).items():
            (res / name).write_text(text if isinstance(text, str) else json.dumps(text))
        sub = {"dir": str(target), "work": str(work), "res": str(res), "outside": str(outside)}
        steps_out = []
        outside_before = project.snapshot(outside)
        for si, step in enumerate(sc["steps"]):
            if step.get("fresh") and si > 0:
                _restore(target, sc["files"])
            for rel, spec in step.get("overlay", {}).items():
                write_tree(target, {rel: spec})
            out_path = work / f"out{si}.codetf"
            sub["out"] = str(out_path)
            argv = [_subst(a, sub) for a in step["argv"]]
            env = {k: (None if v is None else _subst(v, sub)) for k, v in step.get("env", {}).items()}
            cwd = step.get("cwd")
            old_cwd = os.getcwd()
            if cwd:
                os.chdir(_subst(cwd, sub))
            before = project.snapshot(target)
            try:
                run = launcher.run_codemodder(argv, inject=step.get("inject"), env=env)
            finally:
                os.chdir(old_cwd)
            after = project.snapshot(target)
            outside_after = project.snapshot(outside)
            stray = sorted(
                str(p.relative_to(work)) for p in work.iterdir()
                if p.name not in ("outside", "res", sc.get("target_name", "target")) and not p.name.startswith("out")
            )
            pj = project.Projector(
                run, before, after,
                trace_id=f"{sc['id']}#{si}",
                expect=step.get("expect"),
                site_lines=step.get("site_lines"),
                site_findings=step.get("site_findings"),
                site_spans=step.get("site_spans"),
                observe=bool(step.get("observe")),
                bag_check=_bag_check(step.get("bag_expect")),
                outside_unchanged=(outside_after == outside_before) and not stray,
                schema_check=_get_schema_check(),
            )
            trace = pj.project()
            report = None
            if out_path.is_file():
                try:
                    report = json.loads(out_path.read_text())
                except ValueError:
                    report = {"_unparseable": True}
            so = {
                "trace": trace,
                "exit": run["exit"],
                "exc": run["exc"],
                "notes": pj.notes,
                "ftok": pj.ftok,
                "report": report,
                "tree_hash": project.tree_hash(after),
                "changed_files": sorted(k for k in set(before) | set(after) if before.get(k) != after.get(k)),
                "log": (run["stdout"][-3000:] if step.get("keep_log") else ""),
                "stderr": run["stderr"][-1500:] if (run["exit"] not in (0, None) or run["exc"]) else "",
            }
            if step.get("keep_after"):
                so["after"] = {k: project.decode(v) for k, v in after.items()}
            if step.get("keep_contents"):
                so["contents"] = {k: project.decode(v) for k, v in run["contents"].items() if v is not None}
            if step.get("keep_events"):
                so["events"] = [{k: v for k, v in e.items() if k not in ("registry",)} for e in run["events"]]
            steps_out.append(so)
            outside_before = outside_after
        return {"id": sc["id"], "steps": steps_out}
    finally:
        shutil.rmtree(work, ignore_errors=True)
        if _worker_dir:
            tmp = os.path.join(_worker_dir, "tmp")
            for name in os.listdir(tmp):
                p = os.path.join(tmp, name)
                try:
                    shutil.rmtree(p) if os.path.isdir(p) else os.unlink(p)
                except OSError:
                    pass


def run_many(scenarios: list[dict], procs: int = 16, fn=run_scenario, chunksize: int = 1) -> list[dict]:
    """Run scenarios on a fork pool (each worker has its own TMPDIR).  Order of results = order of input."""
    if not scenarios:
        return []
    base = scratch_root()
    procs = max(1, min(procs, len(scenarios)))
    ctx = mp.get_context("fork")
    with ctx.Pool(procs, initializer=_init_worker, initargs=(base,), maxtasksperchild=200) as pool:
        results = pool.map(fn, scenarios, chunksize=chunksize)
    bad = [r for r in results if r.get("machinery_error")]
    if bad:
        raise MachineryFailure(f"{len(bad)} scenario(s) failed in the harness itself, first: {bad[0]['id']}: {bad[0]['machinery_error']}")
    return results
