"""Run one scenario in a fresh interpreter (own PYTHONHASHSEED / environment); used where the process boundary is
the point: hash seeds (C11), exit status of the console entry point (C20)."""
from __future__ import annotations

import json
import os
import subprocess
import sys
import tempfile
from concurrent.futures import ThreadPoolExecutor

from .common import VERIF, MachineryFailure, scratch_root


def _child(path: str) -> int:
    import logging

    logging.getLogger("codemodder").addHandler(logging.NullHandler())
    from . import runner

    sc = json.loads(open(path).read())
    runner._init_worker(os.path.dirname(path))
    out = runner.run_scenario(sc)
    with open(path + ".out", "w") as f:
        json.dump(out, f, default=str)
    return 0


def run_in_subprocess(sc: dict, *, hashseed: int | str = 0, env: dict | None = None, timeout: int = 600) -> dict:
    d = tempfile.mkdtemp(prefix="sub-", dir=scratch_root())
    p = os.path.join(d, "sc.json")
    with open(p, "w") as f:
        json.dump(sc, f)
    e = dict(os.environ)
    e["PYTHONHASHSEED"] = str(hashseed)
    e.update(env or {})
    r = subprocess.run([sys.executable, "-m", "harness.subrun", p], cwd=VERIF, env=e, capture_output=True, text=True, timeout=timeout)
    if r.returncode != 0 or not os.path.exists(p + ".out"):
        raise MachineryFailure(f"subprocess scenario {sc.get('id')} failed: rc={r.returncode}\n{r.stderr[-2000:]}")
    out = json.loads(open(p + ".out").read())
    if out.get("machinery_error"):
        raise MachineryFailure(f"subprocess scenario {sc.get('id')}: {out['machinery_error']}")
    return out


def run_many_subprocess(jobs: list[tuple[dict, dict]], procs: int = 12) -> list[dict]:
    """jobs: [(scenario, {"hashseed":..., "env":...})]"""
    with ThreadPoolExecutor(max_workers=procs) as ex:
        return list(ex.map(lambda j: run_in_subprocess(j[0], **j[1]), jobs))


if __name__ == "__main__":
    sys.exit(_child(sys.argv[1]))
