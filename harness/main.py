"""Entry point: ./check <id> [quick|thorough] [--replay path] | --setup | --selftest"""
from __future__ import annotations

import importlib
import json
import os
import sys
import traceback

from .common import Check, MachineryFailure
from .tlc import TlcFailure


def main(argv: list[str]) -> int:
    import logging

    logging.getLogger("codemodder").addHandler(logging.NullHandler())
    if not argv:
        print(__doc__)
        return 2
    if argv[0] == "--setup":
        from . import setup

        return setup.main()
    if argv[0] == "--selftest":
        from . import selftest

        return selftest.main(argv[1:])
    pid = argv[0].upper()
    tier = None
    replay = None
    rest = argv[1:]
    while rest:
        a = rest.pop(0)
        if a in ("quick", "thorough"):
            tier = a
        elif a == "--replay":
            replay = rest.pop(0)
    if tier:
        os.environ["VERIF_TIER"] = tier
    try:
        mod = importlib.import_module(f"harness.checks.{pid.lower()}")
    except ModuleNotFoundError:
        print(f"no check for {pid}")
        return 2
    try:
        if replay:
            data = json.loads(open(replay).read())
            return mod.replay(data)
        chk = Check(pid, mod.LEVEL, tier)
        chk.coverage["rule"] = getattr(mod, "RULE", "cases are the scenarios generated from the TLA+ generator specification of this check; non-trivial = the scenario exercised the behaviour the property is about")
        mod.run(chk)
        rc = chk.finish()
        problem = _evidence_problem(pid)
        if problem:
            print(f"MACHINERY-FAILURE property={pid}: evidence file does not validate: {problem}", file=sys.stderr)
            return 2
        return rc
    except (MachineryFailure, TlcFailure) as ex:
        print(f"MACHINERY-FAILURE property={pid}: {ex}", file=sys.stderr)
        return 2
    except Exception:  # noqa: BLE001
        traceback.print_exc()
        print(f"MACHINERY-FAILURE property={pid}: unexpected exception", file=sys.stderr)
        return 2


def _evidence_problem(pid: str) -> str | None:
    """The evidence file just written must be a valid record for its level (schemas/EVIDENCE.schema.json)."""
    from pathlib import Path

    from .common import EVIDENCE_DIR

    try:
        import jsonschema
    except ImportError:
        return None
    schema = json.loads((Path(__file__).parent / "schemas" / "EVIDENCE.schema.json").read_text())
    try:
        jsonschema.validate(json.loads((EVIDENCE_DIR / f"{pid}.json").read_text()), schema)
    except jsonschema.ValidationError as ex:
        return ex.message[:300]
    return None


if __name__ == "__main__":
    sys.exit(main(sys.argv[1:]))
