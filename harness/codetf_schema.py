"""Validation of a CodeTF document against the vendored (hand-transcribed) schema."""
from __future__ import annotations

import json
from pathlib import Path

import jsonschema

_SCHEMA = json.loads((Path(__file__).resolve().parent.parent / "schema" / "codetf.schema.json").read_text())
_VALIDATOR = jsonschema.Draft202012Validator(_SCHEMA)


def check(doc) -> str | None:
    """None when valid, else a one-line description of the first error."""
    for err in _VALIDATOR.iter_errors(doc):
        return f"{'/'.join(str(p) for p in err.absolute_path)}: {err.message[:160]}"
    return None
