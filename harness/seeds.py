"""The vendored seed corpus (inputs of the repository's own codemod tests) and program builders on top of it."""
from __future__ import annotations

import difflib
import json
from dataclasses import dataclass, field
from functools import lru_cache
from pathlib import Path

CORPUS = Path(__file__).resolve().parent.parent / "corpus" / "seeds.json"


@dataclass
class Seed:
    codemod: str
    test: str
    input: str
    expected: str
    ext: str = "py"
    sast: bool = False
    tool: str | None = None
    results: str | None = None
    num_changes: int = 1
    files: list = field(default_factory=list)

    @property
    def changes(self) -> bool:
        return self.input != self.expected

    @property
    def key(self) -> str:
        return f"{self.codemod}|{(self.test or '').split('::')[-1]}"


@lru_cache(maxsize=1)
def load() -> list[Seed]:
    out = []
    for r in json.loads(CORPUS.read_text()):
        out.append(
            Seed(
                codemod=r["codemod"], test=r.get("test") or "", input=r["input"], expected=r["expected"], ext=r.get("ext", "py"),
                sast=bool(r.get("sast")), tool=r.get("tool"), results=r.get("results"),
                num_changes=r.get("num_changes") if isinstance(r.get("num_changes"), int) else 1, files=r.get("files") or [],
            )
        )
    return out


EXTRA = CORPUS.parent / "extra_seeds.json"


@lru_cache(maxsize=1)
def extra() -> list[Seed]:
    """Hand-written probes (precedence-sensitive contexts, one-statement blocks, `;`-joined statements ...): inputs only,
    the expected output is not known (= the input, so they never count as 'documented' edits)."""
    if not EXTRA.exists():
        return []
    # a probe MAY state the documented edit it expects ("expected"): only such probes are judged by C16
    return [Seed(codemod=r["codemod"], test="extra::" + r["name"], input=r["input"], expected=r.get("expected", r["input"])) for r in json.loads(EXTRA.read_text())]


def by_codemod(changing_only: bool = True, with_extra: bool = False) -> dict[str, list[Seed]]:
    d: dict[str, list[Seed]] = {}
    if with_extra:
        for s in extra():
            d.setdefault(s.codemod, []).append(s)
    for s in load():
        if changing_only and not s.changes:
            continue
        if s.ext != "py" or s.files:
            continue
        d.setdefault(s.codemod, []).append(s)
    return d


def is_import_line(line: str) -> bool:
    t = line.strip()
    return t.startswith("import ") or t.startswith("from ") or t == ""


def compiles(text: str) -> bool:
    try:
        compile(text, "<seed>", "exec", dont_inherit=True)
        return True
    except (SyntaxError, ValueError):
        return False


def single_line_site(seed: Seed):
    """(line_no, old_line, new_line) if the seed's edit is one line replaced by one line, plus import-only edits."""
    a = seed.input.split("\n")
    b = seed.expected.split("\n")
    sm = difflib.SequenceMatcher(a=a, b=b, autojunk=False)
    site = None
    for tag, i1, i2, j1, j2 in sm.get_opcodes():
        if tag == "equal":
            continue
        old, new = a[i1:i2], b[j1:j2]
        if all(is_import_line(x) for x in old) and all(is_import_line(x) for x in new):
            continue
        if tag == "replace" and len(old) == 1 and len(new) == 1 and site is None and not is_import_line(old[0]):
            site = (i1 + 1, old[0], new[0])
            continue
        return None
    if site is None:
        return None
    if site[1].rstrip().endswith(":") or site[1].rstrip().endswith("\\"):
        return None
    return site


def indent_of(line: str) -> str:
    return line[: len(line) - len(line.lstrip())]


def multi_site_program(seed: Seed, site, lines_wanted: list[int], mark: bool = False):
    """Replicate the site line so that copies sit exactly at the 1-based `lines_wanted` (ascending); filler statements
    with the site's indentation pad the gaps.  With mark=True every copy carries a unique trailing comment `# site<k>`
    so that it can be found again in the rewritten text.  Returns (text, site_lines) or None when impossible."""
    lno, old, _new = site
    src = seed.input.split("\n")
    head = src[: lno - 1]
    tail = src[lno:]
    ind = indent_of(old)
    if lines_wanted[0] < len(head) + 1:
        return None
    out = list(head)
    k = 0
    for want in lines_wanted:
        while len(out) + 1 < want:
            out.append(f"{ind}_filler{k} = {k}")
            k += 1
        out.append(old + (f"  # site{want}" if mark and "#" not in old else ""))
    out += tail
    text = "\n".join(out)
    if not compiles(text):
        return None
    return text, list(lines_wanted)


def best_single_line_seeds(max_per_codemod: int = 2) -> dict[str, list[tuple[Seed, tuple]]]:
    """Per codemod: the shortest seeds whose edit is a single-line site."""
    out: dict[str, list] = {}
    for cid, seeds in by_codemod().items():
        cands = []
        for s in seeds:
            if not compiles(s.input):
                continue
            site = single_line_site(s)
            if site:
                cands.append((len(s.input), s.key, s, site))
        cands.sort(key=lambda c: (c[0], c[1]))
        if cands:
            out[cid] = [(c[2], c[3]) for c in cands[:max_per_codemod]]
    return out


def results_for_cli(tool: str | None, results: str) -> str:
    """The repository's tests hand result files straight to the detector; the CLI first detects the SARIF tool from
    runs[].tool.driver.name, which the test fixtures often omit."""
    if tool != "semgrep":
        return results
    try:
        doc = json.loads(results)
    except ValueError:
        return results
    for run in doc.get("runs", []):
        drv = run.setdefault("tool", {}).setdefault("driver", {})
        drv.setdefault("name", "Semgrep OSS")
    return json.dumps(doc)
