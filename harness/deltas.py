"""C16: the edit a hardening codemod makes, as a delta on the token sequence of a file.

The documented edit of a codemod on a seed is what the repository's own test expects for that seed (vendored in the
corpus): delta(seed) = tokens deleted / inserted between the seed's input and its expected output.  A generic
variation of the seed (nesting, layout, line endings) adds the same tokens before and after, so the rewrite of a variant
must delete and insert exactly the same multisets of tokens, in place (the surviving tokens keep their order).
"""
from __future__ import annotations

import difflib
import io
import tokenize
from collections import Counter


def tokens(text: str) -> list[str] | None:
    out = []
    try:
        for tok in tokenize.generate_tokens(io.StringIO(text).readline):
            if tok.type in (tokenize.NAME, tokenize.NUMBER, tokenize.STRING):
                out.append(tok.string)
            elif tok.type == tokenize.OP and tok.string in ("*", "**", "=", ".", "(", ")", "[", "]", ","):
                # structure that carries argument order / starred arguments; commas and brackets are kept so that a
                # re-ordering of arguments shows up as a deletion plus an insertion
                if tok.string in ("*", "**"):
                    out.append(tok.string)
    except (tokenize.TokenError, IndentationError, SyntaxError):
        return None
    return out


def _split(text: str) -> tuple[str, str]:
    """(import statements, everything else): imports may be added, dropped and moved as whole lines, so they are
    compared as a multiset; the rest of the file is compared in source order"""
    imp, rest = [], []
    for ln in text.split("\n"):
        t = ln.strip()
        (imp if (t.startswith("import ") or t.startswith("from ")) and "(" not in t else rest).append(ln)
    return "\n".join(imp) + "\n", "\n".join(rest) + "\n"


def delta(before: str, after: str):
    bi, br = _split(before)
    ai, ar = _split(after)
    a, b = tokens(br), tokens(ar)
    ia, ib = tokens(bi), tokens(ai)
    if a is None or b is None or ia is None or ib is None:
        return None
    sm = difflib.SequenceMatcher(a=a, b=b, autojunk=False)
    minus, plus = Counter(), Counter()
    for tag, i1, i2, j1, j2 in sm.get_opcodes():
        if tag in ("replace", "delete"):
            minus.update(a[i1:i2])
        if tag in ("replace", "insert"):
            plus.update(b[j1:j2])
    # which of two equal constants the matcher pairs up is arbitrary (`f(a=False)` -> `f(a=True, b=False)`): a constant
    # that is both deleted and inserted cancels out; identifiers and star markers do not (a moved argument stays visible)
    for tok in list(minus):
        if tok in plus and (tok in ("True", "False", "None") or tok[:1] in "0123456789'\"" or tok[:2].lower() in ("b'", 'b"', "r'", 'r"', "f'", 'f"', "u'", 'u"')):
            n = min(minus[tok], plus[tok])
            minus[tok] -= n
            plus[tok] -= n
    minus, plus = +minus, +plus
    ca, cb = Counter(ia), Counter(ib)
    minus.update({f"import:{k}": v for k, v in (ca - cb).items()})
    plus.update({f"import:{k}": v for k, v in (cb - ca).items()})
    return minus, plus


def checker(expect: dict):
    """expect: {rel: {"minus": {tok: n}, "plus": {tok: n}}}"""

    def check(rel, pre_text, new_text, css):
        want = expect.get(rel)
        if want is None:
            return None
        d = delta(pre_text.replace("\r\n", "\n"), new_text.replace("\r\n", "\n"))
        if d is None:
            return None
        minus, plus = d
        wm, wp = Counter(want["minus"]), Counter(want["plus"])
        if minus == wm and plus == wp:
            return None
        extra_minus = minus - wm
        extra_plus = plus - wp
        missing = (wm - minus) + (wp - plus)
        return (f"edit differs from the documented one: additionally deleted {dict(extra_minus)}, additionally inserted {dict(extra_plus)}"
                + (f", documented but not made {dict(missing)}" if missing else ""))

    return check
