"""C16: documented deltas of the hardening codemods (filled in by checks/c16.py's table)."""
from __future__ import annotations


def checker(codemod: str):
    from .checks import c16

    return c16.checker(codemod)
