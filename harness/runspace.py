"""Shared driver for the run-level checks: enumerate ProgramSpace with TLC, sample, concretize, run, validate."""
from __future__ import annotations

import copy
import json

from . import gen, runner, space, tracecheck
from .common import Check


def enumerate_vectors(chk: Check, max_seq: int = 3) -> list[dict]:
    data = {
        "Programs": set(space.PROGRAMS), "Trig": dict(space.TRIGGERS), "DepAdding": set(space.DEP_ADDING),
        "Layouts": set(space.LAYOUTS), "Manifests": set(space.MANIFESTS), "MaxSeq": max_seq,
    }
    res = gen.run_generator("ProgramSpace", "ProgData", data, cfg="ProgramSpace.cfg")
    chk.add_tlc(res)
    vs = [st["v"] for st in res.dump if st["st"] == "init"]
    for v in vs:
        v["queue"] = list(v["queue"])
    vs.sort(key=lambda v: json.dumps(v, sort_keys=True))
    return vs


def vkey(v: dict) -> str:
    return f"{v['program']}|{v['layout']}|{v['manifest']}|{'>'.join(c.split('/')[-1] for c in v['queue'])}|dry={int(v['dryRun'])}|w={v['workers']}"


def sample_covering(chk: Check, vectors: list[dict], n: int, dims=("program", "layout", "manifest", "dryRun")) -> list[dict]:
    """Greedy pairwise-covering sample of about n vectors (seeded): prefers vectors that cover new value pairs."""
    pool = list(vectors)
    chk.rng.shuffle(pool)
    covered: set = set()
    out = []

    def pairs(v):
        vals = [(d, json.dumps(v[d])) for d in dims] + [("len", len(v["queue"])), ("first", v["queue"][0])]
        return {(a, b) for i, a in enumerate(vals) for b in vals[i + 1 :]}

    rest = []
    for v in pool:
        p = pairs(v)
        if p - covered:
            covered |= p
            out.append(v)
        else:
            rest.append(v)
        if len(out) >= n:
            break
    out += rest[: max(0, n - len(out))]
    return out[:n]


def argv_for(v: dict, dry: bool | None = None) -> list[str]:
    argv = ["{dir}", "--output", "{out}", "--codemod-include", ",".join(v["queue"]), "--max-workers", str(v["workers"])]
    if v["dryRun"] if dry is None else dry:
        argv.append("--dry-run")
    return argv


def scenario_for(v: dict, sid: str, steps: list[dict] | None = None, extra_copies: int = 0) -> dict:
    return {
        "id": sid,
        "files": space.project_files(v["program"], v["layout"], v["manifest"], extra_copies),
        "steps": steps or [{"argv": argv_for(v)}],
        "_v": v,
    }


def norm_report(rep):
    if rep is None:
        return None
    r = copy.deepcopy(rep)
    d = r.get("run", {}).get("directory", "")
    for k in ("elapsed", "directory", "commandLine"):
        r.get("run", {}).pop(k, None)
    for res in r.get("results", []):
        if res.get("failedFiles"):
            res["failedFiles"] = [p[len(d) + 1 :] if d and p.startswith(d + "/") else p for p in res["failedFiles"]]
    return r


def run_and_validate(chk: Check, scenarios: list[dict], post=None):
    """Runs scenarios; `post(scenario, result)` may append Compare events to traces before validation.
    Returns [(scenario, result, {trace_id: clauses})]."""
    results = runner.run_many(scenarios)
    traces = []
    for scn, res in zip(scenarios, results):
        if post:
            post(scn, res)
        for st in res["steps"]:
            traces.append(st["trace"])
    verdicts, stats = tracecheck.validate(traces)
    for s in stats:
        chk.add_tlc(s)
    chk.coverage["traces_validated_against_impl"] += len(traces)
    out = []
    for scn, res in zip(scenarios, results):
        out.append((scn, res, {st["trace"]["id"]: verdicts[st["trace"]["id"]] for st in res["steps"]}))
    return out
