"""Parser / printer for TLA+ values as TLC prints them (state dumps, error traces, -simulate files).

Values map to Python: ints, bools, str, tuple (sequences <<..>>), frozenset ({..}), dict (records and
functions).  Functions printed as (k :> v @@ k2 :> v2) become dicts keyed by the parsed key.
"""
from __future__ import annotations

import re

_TOKEN = re.compile(
    r"""\s*(?:
        (?P<str>"(?:[^"\\]|\\.)*")
      | (?P<int>-?\d+)
      | (?P<op><<|>>|\|->|:>|@@|\[|\]|\{|\}|\(|\)|,|\.\.)
      | (?P<id>[A-Za-z_][A-Za-z0-9_!]*)
    )""",
    re.X,
)


class TlaParseError(ValueError):
    pass


def tokenize(text: str):
    pos = 0
    out = []
    n = len(text)
    while pos < n:
        m = _TOKEN.match(text, pos)
        if not m:
            if text[pos:].strip() == "":
                break
            raise TlaParseError(f"cannot tokenize at {pos}: {text[pos:pos+40]!r}")
        pos = m.end()
        kind = m.lastgroup
        out.append((kind, m.group(kind)))
    return out


def _unescape(s: str) -> str:
    body = s[1:-1]
    return (
        body.replace('\\"', '"')
        .replace("\\n", "\n")
        .replace("\\t", "\t")
        .replace("\\\\", "\\")
    )


class _P:
    def __init__(self, toks):
        self.t = toks
        self.i = 0

    def peek(self):
        return self.t[self.i] if self.i < len(self.t) else (None, None)

    def eat(self, val=None):
        k, v = self.peek()
        if val is not None and v != val:
            raise TlaParseError(f"expected {val!r}, got {v!r} at token {self.i}")
        self.i += 1
        return k, v

    def value(self):
        k, v = self.peek()
        if k == "str":
            self.eat()
            return _unescape(v)
        if k == "int":
            self.eat()
            lo = int(v)
            if self.peek()[1] == "..":
                self.eat()
                hi = self.value()
                return frozenset(range(lo, hi + 1))
            return lo
        if k == "id":
            self.eat()
            if v == "TRUE":
                return True
            if v == "FALSE":
                return False
            return v  # model value
        if v == "<<":
            self.eat()
            items = []
            while self.peek()[1] != ">>":
                items.append(self.value())
                if self.peek()[1] == ",":
                    self.eat()
            self.eat(">>")
            return tuple(items)
        if v == "{":
            self.eat()
            items = []
            while self.peek()[1] != "}":
                items.append(self.value())
                if self.peek()[1] == ",":
                    self.eat()
            self.eat("}")
            return frozenset(_freeze(x) for x in items)
        if v == "[":
            self.eat()
            rec = {}
            while self.peek()[1] != "]":
                _, name = self.eat()
                self.eat("|->")
                rec[name] = self.value()
                if self.peek()[1] == ",":
                    self.eat()
            self.eat("]")
            return rec
        if v == "(":
            self.eat()
            fn = {}
            while True:
                key = self.value()
                self.eat(":>")
                fn[_freeze(key)] = self.value()
                if self.peek()[1] == "@@":
                    self.eat()
                    continue
                break
            self.eat(")")
            return fn
        raise TlaParseError(f"unexpected token {v!r} at {self.i}")


def _freeze(x):
    if isinstance(x, dict):
        return tuple(sorted((k, _freeze(v)) for k, v in x.items()))
    if isinstance(x, (list, tuple)):
        return tuple(_freeze(v) for v in x)
    if isinstance(x, (set, frozenset)):
        return frozenset(_freeze(v) for v in x)
    return x


def parse_value(text: str):
    p = _P(tokenize(text))
    v = p.value()
    if p.i != len(p.t):
        raise TlaParseError("trailing tokens")
    return v


_CONJ = re.compile(r"^/\\ (\w+) = ", re.M)


def parse_state(block: str) -> dict:
    """Parse a state printed as conjunctions `/\\ var = value` (possibly multi-line values)."""
    out = {}
    ms = list(_CONJ.finditer(block))
    if not ms:
        # single-variable states are printed as `var = value`
        m = re.match(r"\s*(\w+) = ", block)
        if not m:
            raise TlaParseError(f"not a state: {block[:80]!r}")
        out[m.group(1)] = parse_value(block[m.end():])
        return out
    for idx, m in enumerate(ms):
        end = ms[idx + 1].start() if idx + 1 < len(ms) else len(block)
        out[m.group(1)] = parse_value(block[m.end():end])
    return out


def parse_dump(text: str) -> list[dict]:
    """Parse the file written by `tlc -dump <file>`: `State N:` headers followed by a state."""
    states = []
    parts = re.split(r"^State \d+:\s*$", text, flags=re.M)
    for part in parts[1:]:
        part = part.strip()
        if part:
            states.append(parse_state(part))
    return states


# ---------------------------------------------------------------- printing


def to_tla(v) -> str:
    if isinstance(v, bool):
        return "TRUE" if v else "FALSE"
    if isinstance(v, int):
        return str(v)
    if isinstance(v, str):
        return '"' + v.replace("\\", "\\\\").replace('"', '\\"') + '"'
    if isinstance(v, (list, tuple)):
        return "<<" + ", ".join(to_tla(x) for x in v) + ">>"
    if isinstance(v, (set, frozenset)):
        return "{" + ", ".join(sorted(to_tla(x) for x in v)) + "}"
    if isinstance(v, dict):
        if not v:
            return "<<>>"
        if all(isinstance(k, str) and re.fullmatch(r"[A-Za-z_][A-Za-z0-9_]*", k) for k in v):
            return "[" + ", ".join(f"{k} |-> {to_tla(x)}" for k, x in v.items()) + "]"
        return "(" + " @@ ".join(f"{to_tla(k)} :> {to_tla(x)}" for k, x in v.items()) + ")"
    raise TypeError(f"cannot print {type(v)}")


def cps(s: str) -> tuple:
    """string -> sequence of code points (TLC cannot index strings)."""
    return tuple(ord(c) for c in s)


def uncps(t) -> str:
    return "".join(chr(c) for c in t)
