"""Shared plumbing of every check: tiers, seeds, scratch space, violations, known findings, evidence."""
from __future__ import annotations

import atexit
import hashlib
import json
import os
import random
import shutil
import sys
import tempfile
import time
from pathlib import Path

VERIF = Path(__file__).resolve().parent.parent
REPO = Path(os.environ.get("VERIF_REPO", "/repo"))
_ALT = REPO != Path("/repo")  # judging another checkout (a seeded change): keep its output away from the real evidence
EVIDENCE_DIR = Path(f"/tmp/verif-alt/{REPO.name}/evidence") if _ALT else VERIF / "evidence"
REPLAY_DIR = Path(f"/tmp/verif-alt/{REPO.name}/replay") if _ALT else VERIF / "replay"
KNOWN_FILE = VERIF / "known_findings.json"

LEVELS = ("exploration", "fault_enumeration", "model_checking", "proof", "translation_validation", "other")


class MachineryFailure(RuntimeError):
    """Something in the verification machinery broke (exit 2); never a verdict about the repository."""


_scratch_root: str | None = None


def scratch_root() -> str:
    global _scratch_root
    if _scratch_root is None:
        base = os.environ.get("VERIF_SCRATCH_BASE", "/tmp")
        _scratch_root = tempfile.mkdtemp(prefix=f"verif-{os.getpid()}-", dir=base)
        os.environ["VERIF_SCRATCH"] = _scratch_root
        atexit.register(_cleanup, _scratch_root, os.getpid())
    return _scratch_root


def _cleanup(path: str, owner: int) -> None:
    if os.getpid() == owner:
        shutil.rmtree(path, ignore_errors=True)


def scratch(prefix: str = "w") -> Path:
    return Path(tempfile.mkdtemp(prefix=prefix + "-", dir=scratch_root()))


def sha(data: bytes | str) -> str:
    if isinstance(data, str):
        data = data.encode("utf-8", "surrogateescape")
    return hashlib.sha1(data).hexdigest()[:12]


def load_known() -> dict:
    if not KNOWN_FILE.exists():
        return {"findings": [], "fixed": []}
    return json.loads(KNOWN_FILE.read_text())


class Check:
    """One run of one property's check."""

    def __init__(self, pid: str, level: str, tier: str | None = None):
        assert level in LEVELS
        self.pid = pid
        self.level = level
        self.tier = tier or os.environ.get("VERIF_TIER", "quick")
        if self.tier not in ("quick", "thorough"):
            self.tier = "quick"
        self.seed = int(os.environ.get("VERIF_SEED", "0") or 0)
        self.rng = random.Random(f"{pid}-{self.seed}")
        self.t0 = time.time()
        self.violations: list[dict] = []
        self.known_hits: dict[str, dict] = {}
        self.coverage: dict = {
            "evaluations": 0,
            "distinct_nontrivial": 0,
            "states": 0,
            "transitions": 0,
            "traces_validated_against_impl": 0,
            "samples": [],
        }
        self._nontrivial: set = set()
        self.assumptions: list[str] = []
        self.known = [k for k in load_known().get("findings", []) if k.get("property") == pid]
        self.notes: dict = {}
        scratch_root()

    # ---------------------------------------------------------------- accounting
    @property
    def quick(self) -> bool:
        return self.tier == "quick"

    def pick(self, quick, thorough):
        return quick if self.quick else thorough

    def count(self, n: int = 1) -> None:
        self.coverage["evaluations"] += n

    def nontrivial(self, key) -> None:
        self._nontrivial.add(key if isinstance(key, (str, int, tuple)) else json.dumps(key, sort_keys=True, default=str))

    def sample(self, s, limit: int = 6) -> None:
        if len(self.coverage["samples"]) < limit:
            self.coverage["samples"].append(s)

    def add_tlc(self, res, traces: int = 0) -> None:
        self.coverage["states"] += res.distinct
        self.coverage["transitions"] += max(res.generated, 0)
        self.coverage["traces_validated_against_impl"] += traces
        self.coverage.setdefault("tlc_runs", []).append(
            {"generated": res.generated, "distinct": res.distinct, "depth": res.depth, "wall_s": round(res.wall_s, 2)}
        )

    # ---------------------------------------------------------------- verdicts
    def violation(self, signature: str, what: str, replay: dict | None = None) -> None:
        """Record a violation.  `signature` identifies the failing scenario (input / call site / history)."""
        for k in self.known:
            if _sig_match(k, signature):
                self.known_hits.setdefault(k["signature"], {"finding": k, "n": 0, "example": what})["n"] += 1
                return
        if any(v["signature"] == signature for v in self.violations):
            return
        self.violations.append({"signature": signature, "what": what, "replay": replay or {}})

    def finish(self) -> int:
        wall = time.time() - self.t0
        self.coverage["distinct_nontrivial"] = len(self._nontrivial)
        if self.coverage["states"] == 0:
            # no TLC run contributed: drop model-checking keys so that the generic keys are the ones judged
            for k in ("states", "transitions"):
                self.coverage.pop(k, None)
        for sig, hit in self.known_hits.items():
            print(f"KNOWN-FINDING: property={self.pid} {hit['finding'].get('what', sig)} [{sig}; {hit['n']} case(s) this run]")
        paths = []
        for v in self.violations[:25]:
            d = REPLAY_DIR / self.pid
            d.mkdir(parents=True, exist_ok=True)
            p = d / (sha(v["signature"]) + ".json")
            p.write_text(json.dumps({"property": self.pid, **v}, indent=1, default=str))
            paths.append(p)
            print(f"VIOLATION property={self.pid} replay={p}")
            print(f"  what: {v['what'][:600]}")
        ev = {
            "property_id": self.pid,
            "tier": self.tier,
            "seed": self.seed,
            "level": self.level,
            "coverage": self.coverage,
            "assumptions": self.assumptions,
            "wall_s": round(wall, 2),
            "violations": len(self.violations),
            "known_findings_seen": sorted(self.known_hits),
            "notes": self.notes,
        }
        EVIDENCE_DIR.mkdir(parents=True, exist_ok=True)
        (EVIDENCE_DIR / f"{self.pid}.json").write_text(json.dumps(ev, indent=1, default=str) + "\n")
        c = self.coverage
        print(
            f"[{self.pid}] tier={self.tier} seed={self.seed} evaluations={c['evaluations']} "
            f"nontrivial={c['distinct_nontrivial']} states={c.get('states', 0)} "
            f"traces={c['traces_validated_against_impl']} violations={len(self.violations)} "
            f"known={len(self.known_hits)} wall={wall:.1f}s"
        )
        return 1 if self.violations else 0


def _sig_match(known: dict, signature: str) -> bool:
    ks = known.get("signature", "")
    if known.get("match") == "prefix":
        return signature.startswith(ks)
    return signature == ks


def chunks(seq, n):
    seq = list(seq)
    for i in range(0, len(seq), n):
        yield seq[i : i + n]
