"""Which codemod's fix CREATES a trigger for another codemod ("enabling pair")?

For every vendored seed of codemod K1, the input and the expected output are scanned (--dry-run, default selection);
K2 is enabled by K1 on that seed when K2 reports a change on the output but not on the input.  C09 turns every pair
into a scenario (batch run of K1,K2 against the chain of single runs): the detector of K2 must see what K1 left."""
from __future__ import annotations

import json
from pathlib import Path

from . import pyoracle, runner, seeds

RECORDED = Path(__file__).resolve().parent.parent / "corpus" / "c09_enabling.json"


def find_pairs(per_codemod: int = 6) -> list[dict]:
    allseeds = [s for s in seeds.load() if s.ext == "py" and not s.sast and s.changes and not s.files and s.codemod.startswith("pixee:")
                and pyoracle.compiles(s.input) and pyoracle.compiles(s.expected)]
    by: dict = {}
    for s in sorted(allseeds, key=lambda s: (len(s.input), s.key)):
        by.setdefault(s.codemod, [])
        if len(by[s.codemod]) < per_codemod:
            by[s.codemod].append(s)
    chosen = [s for c in sorted(by) for s in by[c]]
    scenarios, index = [], {}
    per = 24
    for b in range(0, len(chosen), per):
        files = {}
        for i, s in enumerate(chosen[b : b + per]):
            files[f"in_{b + i:04d}.py"] = s.input
            files[f"out_{b + i:04d}.py"] = s.expected
            index[b + i] = s
        scenarios.append({"id": f"EN-{b}", "files": files, "steps": [{"argv": ["{dir}", "--output", "{out}", "--dry-run"]}]})
    touched: dict = {}
    for r in runner.run_many(scenarios):
        rep = r["steps"][0]["report"] or {}
        for res in rep.get("results", []):
            for cs in res.get("changeset", []):
                touched.setdefault(cs["path"], set()).add(res["codemod"])
    pairs = []
    for i, s in index.items():
        a, b = touched.get(f"in_{i:04d}.py", set()), touched.get(f"out_{i:04d}.py", set())
        for k2 in sorted(b - a):
            if k2 != s.codemod:
                pairs.append({"k1": s.codemod, "k2": k2, "seed": s.key})
    return pairs


def recorded() -> list[dict]:
    if not RECORDED.exists():
        return []
    d = json.loads(RECORDED.read_text())
    seen, out = set(), []
    for p in d.get("pairs", []) + d.get("history", []):
        k = (p["k1"], p["k2"], p["seed"])
        if k not in seen:
            seen.add(k)
            out.append(p)
    return out


def record(pairs: list[dict]) -> None:
    old = json.loads(RECORDED.read_text()) if RECORDED.exists() else {}
    hist = {(p["k1"], p["k2"], p["seed"]): p for p in old.get("history", []) + old.get("pairs", [])}
    RECORDED.write_text(json.dumps({
        "_doc": "pairs (k1, k2, seed): k2 reports a change on the expected output of k1's seed but not on its input (measured by "
                "tools_enabling.py); history = pairs measured at some earlier time (kept as regression scenarios of C09)",
        "pairs": pairs, "history": sorted(hist.values(), key=lambda p: (p["k1"], p["k2"], p["seed"]))}, indent=1) + "\n")
