"""Writes /verif/MANIFEST.json from the table below (run: /venv/bin/python -m harness.manifest)."""
from __future__ import annotations

import json
from pathlib import Path

VERIF = Path(__file__).resolve().parent.parent

CHECKS = {
    "C17": dict(
        category="model_checking",
        text="TLC enumerates every include/exclude list (length <= 2 exhaustively, longer ones sampled by seed) over a "
        "pattern pool built by rule from the working tree's registry and over a synthetic registry with all short globs, "
        "in both eligibility modes, and computes the acceptable selections with the reference semantics of Selection.tla; "
        "every scenario is replayed through the real CodemodRegistry.match_codemods, a sample end-to-end through "
        "codemodder.run and judged by Trace_Run (queue, start order, report order).",
        design_ref="DESIGN.md §5 C17",
        note="Trusted: TLC, the Selection.tla reading of the statement (whole-id `*` match, first occurrence kept; user "
        "exclude list may replace or extend the defaults), the probes of harness/launcher.py.",
        technique="TLA+ reference semantics enumerated by TLC (generator spec) + replay into the code + TLC trace validation",
        engine="tlc-gen+trace",
    ),
    "C11": dict(
        category="model_checking",
        text="Pool.tla is model-checked for every interleaving of 4 files on 1..3 workers (worker bound, each file once, delivery "
        "in input order, termination); its completion orders become delay schedules for real runs whose recorded Begin/End/Merge "
        "events are validated by Trace_Run (worker bound in every state, merge in input order); runs perturbed in workers, "
        "schedule, PYTHONHASHSEED (fresh interpreters), creation order and siblings (single-file runs; a 1 035-file project with sites in "
        "directories tools commonly skip; names differing only by case) are compared with a reference run.  The worker bound for every "
        "N, W <= 12 is an inductive invariant of the index abstraction PoolAbs.tla, discharged by Apalache (three obligations).",
        design_ref="DESIGN.md §5 C11",
        note="Trusted: TLC, the probes (sequence numbers under one lock, no wall clock), report normalisation (elapsed, directory, "
        "commandLine dropped). Directory enumeration order is varied only through creation order.",
        technique="TLC model checking of the pool + Apalache inductive invariant + trace validation of scheduled real runs + differential runs",
        engine="tlc-gen+trace",
    ),
    "C20": dict(
        category="model_checking",
        text="Cli.tla gives the documented exit status as a function of an abstract token sequence (info / bad / conflicting / "
        "unknown options, directory, output path kinds, result-file kinds) and the AI-client environment; Gen_Cli enumerates all "
        "sequences of length <= 2 over 29 tokens plus seeded longer ones; every scenario is run through the real codemodder.run and "
        "the trace (expected status in RunStart) judged by Trace_Run; a sample runs the console script in real subprocesses.",
        design_ref="DESIGN.md §5 C20",
        note="Trusted: TLC, the order arguments -> directory -> result files -> AI configuration -> report taken from the statement; "
        "unwritable output is produced by missing parent / directory / /dev/full (checks run as root); a consistent OpenAI "
        "configuration cannot be exercised (client library unusable in this sandbox), the Azure Llama one is.",
        technique="TLA+ CLI state machine enumerated by TLC + replay into the code + TLC trace validation",
        engine="tlc-gen+trace",
    ),
    "C05": dict(
        category="model_checking",
        text="PathFilter.tla defines which files MAY and MUST change for include/exclude lists and mode; Gen_PathFilter enumerates "
        "lists over 18 patterns (with and without :line) x {find-and-fix, SAST} over a universe tree (nested, test/build/venv/VCS "
        "dirs, conftest, site-packages, non-Python, symlinked file and directory into a sibling tree); every scenario is replayed "
        "through the real codemod objects (get_files_to_analyze on a real context), a sample end-to-end through the CLI and judged "
        "by Trace_Run (changed within MAY, MUST changed, outside tree untouched).",
        design_ref="DESIGN.md §5 C05",
        note="Trusted: TLC, the glob reading (`*` any string, `?` one character, whole-path match), the pinned-core / don't-care "
        "split of the default excludes (DESIGN §7), tree snapshots.",
        technique="TLA+ reference semantics enumerated by TLC + replay into the code + TLC trace validation",
        engine="tlc-gen+trace",
    ),
    "C13": dict(
        category="model_checking",
        text="For each of the pinned find-and-fix codemods with a single-line seed: programs with three copies of the site; batch "
        "projects hold one file per subset of sites excluded / included / combined x spelling (relative, globbed, absolute); "
        "Gen_Lines computes from the real pattern lists of each run which sites are permitted (PathFilter!Permitted); Trace_Run "
        "judges the real run: only permitted sites rewritten, all permitted sites rewritten, change entries on exactly those lines.",
        design_ref="DESIGN.md §5 C13",
        note="Trusted: TLC, site detection by unique trailing comments, corpus/c13_pins.json (codemods whose construct is the single "
        "line, measured at pin time). Known finding: include lines ignored when exclude lines are given for the same file.",
        technique="TLA+ reference semantics evaluated by TLC on the run's real pattern lists + TLC trace validation",
        engine="tlc-gen+trace",
    ),
    "C12": dict(
        category="model_checking",
        text="Findings.tla defines combination of result sets (key-wise concatenation) and the extraction of findings from abstract "
        "Sonar / SARIF / DefectDojo documents; Gen_Merge enumerates all ordered pairs (and seeded triples) of result sets over 2 rules "
        "x 2 files, Gen_Docs enumerates documents (parts absent/null/empty/list, statuses, ranges, rule-index indirection, runs of "
        "several tools) and sequences of 1..3 result files; every case is replayed through the public classes (`|`, `|=`, from_json, "
        "from_sarif, detect_sarif_tools, the process_*_findings loops) and compared as multisets per (rule, file) with identity and "
        "ranges; end-to-end runs split the findings of three sites over two files / both parts of a document (Trace_Run).",
        design_ref="DESIGN.md §5 C12",
        note="Trusted: TLC, the JSON writers of the harness. Foreign SARIF runs may stay visible in a tool's set as long as its own "
        "findings are intact; results without a region are not generated for Semgrep.",
        technique="TLA+ reference semantics enumerated by TLC + replay into the code + TLC trace validation",
        engine="tlc-gen+trace",
    ),
    "C03": dict(
        category="model_checking",
        text="ProgramSpace.tla enumerates source program (several triggers per line/file) x layout/encoding variant (LF, CRLF, lone CR, "
        "no final newline, BOM, form feed, vertical tab, unicode separators, tabs, trailing whitespace, non-ASCII) x manifests x codemod "
        "sequences of length 1..3 x dry-run; a pairwise-covering sample is run through the real CLI and every step of every trace is "
        "checked by Trace_Run against Run.tla: each reported diff applied (independent applier) to the preceding content gives the "
        "content on disk, diffs compose from the original to the final content, files without changeset are byte-identical, every "
        "changeset is a real change; MC_Run shows the design satisfies the invariants for every interleaving.",
        design_ref="DESIGN.md §5 C03",
        note="Trusted: TLC, harness/patch.py (LF-delimited lines, one final newline tolerated, also when shown as an empty last "
        "line), content interning by hash.",
        technique="TLC model checking of the run design + TLC trace validation of real runs over a TLC-enumerated scenario space",
        engine="tlc-gen+trace",
    ),
    "C04": dict(
        category="model_checking",
        text="ProgramSpace vectors (all manifest kinds, dependency-adding codemods, layouts, sequences) run with --dry-run and, on a "
        "restored copy, for real; Trace_Run checks on the dry trace that no FileEnd / Deps step moves the disk and that the final tree "
        "snapshot (creations and deletions included) equals the initial one; single-codemod reports are compared (Compare event); "
        "MC_Run checks C04_DryRunFrozen on the design with dryRun unconstrained.",
        design_ref="DESIGN.md §5 C04",
        note="Trusted: TLC, tree snapshots, report normalisation (elapsed, directory, commandLine dropped).",
        technique="TLC model checking of the run design + TLC trace validation of paired dry/real runs",
        engine="tlc-gen+trace",
    ),
    "C15": dict(
        category="model_checking",
        text="Every run of a ProgramSpace sample plus corner runs (no codemod, empty directory, all files failing, non-ASCII paths, SAST "
        "runs of each tool with the repository's seed findings) is validated by Trace_Run: report = BuildReport(queue, aggregates) "
        "(one result per selected codemod, in order, with exactly the changesets and failures the run merged), failed/changed disjoint, "
        "change lines inside the file, descriptions non-empty; the document is validated against the vendored JSON schema as built "
        "and as written.",
        design_ref="DESIGN.md §5 C15",
        note="Trusted: TLC, jsonschema, schema/codetf.schema.json (hand transcription: the official schema is not available offline).",
        technique="TLC trace validation of real runs (relational report invariants) + JSON-schema validation",
        engine="tlc-gen+trace",
    ),
    "C10": dict(
        category="fault_enumeration",
        text="Faults.tla enumerates every placement of one fault (thorough: also two) of every kind (invalid UTF-8, an undecodable byte in a comment only, NUL, syntax error, "
        "empty file, file vanishing mid-run, transformer raising on a file, raising at the n-th visited node) x codemod x file for "
        "three pipeline kinds (detector-less, rule-detected with the real semgrep, Sonar-driven) and derives which steps must be "
        "reported failed and which bytes must stay; each faulty run is paired with its fault-free twin; Trace_Run checks the faulty "
        "trace (failed file untouched and listed, findings unfixed, no exception escapes, report built, exit 0) and Compare events "
        "check that all other files and results equal the twin's and that every other codemod treats a file hit by a transformer fault as in "
        "the twin. MC_Run checks C10_FailedUntouched and termination on the design.",
        design_ref="DESIGN.md §5 C10",
        note="Trusted: TLC, the fault injectors of harness/launcher.py (environment steps are explicit EnvChange events in the trace). "
        "Faults inside semgrep itself are not injected.",
        technique="TLC-enumerated fault placements replayed into the code + TLC trace validation + differential twin runs",
        engine="tlc-gen+trace",
    ),
    "C14": dict(
        category="model_checking",
        text="Deps.tla enumerates every assignment of abstract states (none / absent / same / other spelling / unwritable) to the four "
        "manifest kinds and defines the acceptable sets of changed manifests (only one that can take the requirement and does not "
        "declare it; exactly one when nothing declares it; report admits failure when none can); each abstract project is made "
        "concrete with corpus texts per format and run with a dependency-adding codemod; Trace_Run judges the Deps step with the "
        "manifest re-parsed by independent parsers (still parses, requirements and comments kept, requirement added exactly once, "
        "diff = change, at most one manifest touched); a second run on the restored source must add nothing.",
        design_ref="DESIGN.md §5 C14",
        note="Trusted: TLC, harness/manifests.py (packaging / tomllib / ast / configparser). Which manifest is updated is not prescribed. "
        "Three known findings (second run adds to another manifest; setup.py and setup.cfg forms not recognised on re-run).",
        technique="TLA+ reference relation enumerated by TLC + replay into the code + TLC trace validation",
        engine="tlc-gen+trace",
    ),
    "C06": dict(
        category="model_checking",
        text="Gen_Sites.tla enumerates all 2^3 subsets of reported sites and the decoy kinds (foreign rule at the same location, own rule "
        "for a foreign file, resolved/closed status, empty result file) and derives the sites that must be rewritten; for every pinned "
        "SAST codemod (Sonar, Semgrep SARIF, DefectDojo) a three-site program is built from the repository's own seed and the finding "
        "its test reports is cloned per reported site (same line delta); one real CLI run per codemod holds one file per scenario; "
        "Trace_Run judges: rewritten sites = reported sites, each change entry carries exactly the findings reported for its site, "
        "unfixed findings are reported ones, nothing for decoys.",
        design_ref="DESIGN.md §5 C06",
        note="Trusted: TLC, site detection by unique trailing comments, corpus/c06_pins.json. Sonar/Semgrep CodeTF findings carry the "
        "rule id as id, so identity beyond the rule is checked for DefectDojo only (and at API level in C12). Line shifts only.",
        technique="TLC-enumerated scenarios replayed into the code + TLC trace validation",
        engine="tlc-gen+trace",
    ),
    "C09": dict(
        category="model_checking",
        text="ProgramSpace vectors with queues of 2..3 codemods that touch the same file, the same line or the same manifest, in every "
        "order, are run as one batch invocation and, on a restored copy, as a chain of single-codemod invocations on the evolving tree; "
        "all traces are validated by Trace_Run (Run.tla: aggregates of a codemod come only from its own steps, report = BuildReport); "
        "Compare events require equal final trees and equal per-codemod results (changesets, failures, dependency notice).  "
        "Prefilter.tla models the single semgrep scan that gates every rule-detected codemod: batch = chain provided no fix creates a "
        "trigger of a later codemod (refuted without the proviso); the proviso is measured on the real registry (harness/enabling.py: "
        "K2 reports a change on the expected output of K1's seed but not on its input) and every pair found is run batch vs chain.  "
        "Thorough adds the whole default selection against the chain of the same codemods and measures the pairs afresh on all seeds.",
        design_ref="DESIGN.md §5 C09",
        note="Trusted: TLC, result normalisation. Enabling pairs are searched on the vendored seeds only.",
        technique="TLC trace validation of batch and chained real runs over a TLC-enumerated scenario space + differential comparison",
        engine="tlc-gen+trace",
    ),
    "C08": dict(
        category="model_checking",
        text="ExprRewrite.tla transcribes the boolean folding of combine-startswith-endswith/-isinstance-issubclass and the operator "
        "table of invert-boolean-check over an expression algebra with a three-valued evaluator (value or TypeError, short-circuit "
        "semantics); MC_ExprRewrite decides Eval(Rewrite(e)) = Eval(e) for all expressions of depth <= 2 (44k) under all assignments "
        "for the behaviour-preserving rules, and refutes the pinned ones; conformance: every enumerated expression is run through the "
        "real codemods, parsed back into the algebra and compared with the transcription, and what the code produced is judged by the "
        "same evaluator (Eval_Expr.tla). The other refactoring codemods are observed: seed programs run closed before and after the "
        "rewrite in an isolated interpreter (stdout, exception type, exit status). WithScope.tla decides which extents of the `with` block "
        "built by fix-file-resource-leak preserve behaviour over all alias / read orders (its own execution is checked against CPython) "
        "and the real block is measured against it; SqlParam.tla transcribes the piece-level parameter extraction of "
        "sql-parameterization against a grammar-level reference, every query is rendered in four Python forms, rewritten and executed on "
        "sqlite3 before and after.",
        design_ref="DESIGN.md §5 C08",
        note="Trusted: TLC, harness/expr.py (rendering / parsing between Python and the algebra), the execution sandbox, sqlite3. Six known "
        "findings (behaviour pinned by the repository's own tests).",
        technique="TLC model checking of transcribed rewrite rules + spec-to-code conformance replay; differential execution for the rest",
        engine="tlc-gen+trace",
    ),
    "C01": dict(
        category="exploration",
        text="Variants.tla enumerates the feature vectors (nesting / scope, layout and line endings, multiplicity, import placement); "
        "for every registered find-and-fix codemod the vendored seeds are varied accordingly (one project per codemod), SAST codemods run "
        "on their own seeds and findings, sequences come from ProgramSpace; the observation 'compiled/parsed before => compiles/parses "
        "after' is computed by CPython for every FileEnd event and monitored by Trace_Run on every trace.",
        design_ref="DESIGN.md §5 C01, §6",
        note="The predicate is CPython's compile()/ast.parse(), trusted; TLA+ contributes the enumeration and the monitor only. Programs "
        "outside seeds x variations are not covered.",
        technique="TLC-enumerated program variants run through the code; CPython oracle monitored by TLC trace validation",
        engine="tlc-gen+trace",
    ),
    "C02": dict(
        category="exploration",
        text="Same scenario space as C01; the observation unresolved(after) subset of unresolved(before) (scope-aware, symtable + builtins) "
        "is computed for every FileEnd event and monitored by Trace_Run.  ImportUse.tla transcribes the rule that decides that an import "
        "is unused (import form x place x use x file x pragma); TLC proves it removes unused imports only (pinned export recognition "
        "refuted); every program is run through unused-imports, the removal compared with the rule, and executed before and after.",
        design_ref="DESIGN.md §5 C02, §6",
        note="The predicate is computed by CPython's symtable, trusted; files with star imports are not judged.",
        technique="TLC-enumerated program variants run through the code; symtable oracle monitored by TLC trace validation",
        engine="tlc-gen+trace",
    ),
    "C07": dict(
        category="exploration",
        text="For every codemod the vendored seeds under the Variants.tla feature vectors (SAST: with the repository's findings, result "
        "files kept) are run twice with the same arguments; Trace_Run validates both traces and, on the second, the `frozen` "
        "expectation: no FileEnd reports a change, no file moves.",
        design_ref="DESIGN.md §5 C07",
        note="Programs outside seeds x variations are not covered. One known finding (flask-json-response-type with re-bound names).",
        technique="TLC-enumerated program variants run twice through the code; TLC trace validation of the second run",
        engine="tlc-gen+trace",
    ),
    "C19": dict(
        category="model_checking",
        text="LinePipe.tla enumerates every document of <= 3 (thorough 4) lines (line matches / carries a finding) x {plain, SAST, SAST "
        "without results} x line endings x final newline x dry-run with the reference outcome (edited lines, findings per change, "
        "unfixed findings, file written or not); XmlDocs.tla enumerates abstract XML documents (target / other / namespaced elements, "
        "attribute subsets, entity text, CDATA, comments, PIs, character references to CR/LF/TAB, non-ASCII text (UTF-8 and ISO-8859-1 documents), five DOCTYPE forms incl. an internal subset, nesting; deeper ones sampled) x {attribute map, new "
        "element} x finding selections and computes the edited abstract document; every scenario is replayed through the public "
        "pipeline classes; XML output is parsed with expat and compared as event lists with the expected document.",
        design_ref="DESIGN.md §5 C19",
        note="Trusted: TLC, expat, the renderer of abstract documents, harness/patch.py. Documents the pipeline declines and leaves "
        "untouched (external DTD references, refused on purpose) are not judged. DTD internal subsets are not generated.",
        technique="TLA+ reference semantics enumerated by TLC + replay of every behaviour into the public pipeline classes",
        engine="tlc-gen+trace",
    ),
    "C18": dict(
        category="exploration",
        text="For each of the rule-detected find-and-fix codemods (those whose detector is a semgrep rule of their own): pinned seeds "
        "under the Variants.tla feature vectors (nesting, layout, line endings, the touched statement twice on one line) and runs of TWO "
        "rule-detected codemods over concatenated seeds (both queue orders: the later detector has to report on the file as the earlier "
        "codemod left it); each project is run for real and once more with --dry-run, so the findings the real detector hands to every "
        "(codemod, file) step are in the traces; Compare events: every location flagged before lies in a region that step rewrote or the "
        "file is failed, nothing flagged after lies in a line the codemod itself wrote; all traces validated by Trace_Run.",
        design_ref="DESIGN.md §5 C18",
        note="The detector is codemodder's own semgrep run (trusted); only variants of seeds pinned in corpus/c18_pins.json are judged; "
        "variations that re-bind names (a declined shape) are left out.",
        technique="TLC-enumerated program variants run through the code and its own detector; TLC trace validation",
        engine="tlc-gen+trace",
    ),
    "C16": dict(
        category="exploration",
        text="The documented edit of a hardening codemod on a seed is the one the repository's own test expects (vendored corpus): the "
        "tokens deleted / inserted between input and expected output (identifiers, attribute names, keywords, constants, star markers; "
        "code in source order, import statements as a multiset).  For each of the 22 hardening codemods, seeds are varied along the "
        "Variants.tla feature vectors (incl. the argument list of the touched calls extended by `**extra_kw` last / in front of the "
        "keywords, one more keyword, `**extra_map` in dict arguments) and run through the real CLI; the delta of every rewritten file must equal the documented delta "
        "of its seed - nothing else deleted, inserted or re-ordered; the observation (`bagOk`) is monitored by Trace_Run.",
        design_ref="DESIGN.md §5 C16, §6",
        note="The token oracle is Python's tokenize + difflib, trusted; TLA+ contributes the enumeration and the monitor. Programs outside "
        "seeds x variations are not covered.",
        technique="TLC-enumerated program variants run through the code; token-delta oracle monitored by TLC trace validation",
        engine="tlc-gen+trace",
    ),
}

NOT_APPLICABLE: list[dict] = []


def build() -> dict:
    checks = []
    for pid, c in CHECKS.items():
        checks.append(
            {
                "property_id": pid,
                "quick_cmd": f"./check {pid} quick",
                "thorough_cmd": f"./check {pid} thorough",
                "evidence_file": f"/verif/evidence/{pid}.json",
                "replay_cmd_template": f"./check {pid} --replay {{path}}",
                "engine": c["engine"],
                "level_claimed": {"category": c["category"], "text": c["text"], "design_ref": c["design_ref"]},
                "level_note": c["note"],
                "technique": c["technique"],
            }
        )
    return {
        "version": 1,
        "setup_cmd": "./check --setup",
        "hooks": {
            "guard": "CODEMODDER_VERIF_TRACE",
            "enable": "no source hooks: probes are installed by harness/launcher.py by wrapping public call boundaries in the "
            "harness process (DESIGN.md §4.1); the repository is imported from /repo/src (editable install), so the working "
            "tree is what runs",
            "baseline_off_cmd": "cd /repo && /venv/bin/python -m pytest -ra -q -p no:cacheprovider --timeout=900 --continue-on-collection-errors",
            "source_commits": [],
            "add_only": True,
        },
        "engines": [
            {"name": "tlc-gen+trace", "path": "/verif/harness", "serves_properties": sorted(CHECKS),
             "kind_free_text": "TLA+ specifications in /verif/spec checked with TLC: design model (MC_*), generator specs (Gen_*: "
             "scenario enumeration + reference outcome), trace specs (Trace_*: validation of recorded executions of the real code)"},
        ],
        "checks": checks,
        "not_applicable": NOT_APPLICABLE,
        "notes": "See DESIGN.md. Known findings: known_findings.json. Seeded breaking changes: seeded/.",
    }


if __name__ == "__main__":
    (VERIF / "MANIFEST.json").write_text(json.dumps(build(), indent=1) + "\n")
    print("MANIFEST.json written:", len(CHECKS), "checks")
