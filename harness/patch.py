"""Independent unified-diff applier (what `patch(1)` does with a difflib-style diff).

Lines are delimited by LF only; a CR stays inside its line.  The final-newline tolerance of property C03
("up to the presence of a final newline") is applied by `same_modulo_final_newline`.
"""
from __future__ import annotations

import re

_HUNK = re.compile(r"^@@ -(\d+)(?:,(\d+))? \+(\d+)(?:,(\d+))? @@")


class PatchError(ValueError):
    pass


def split_lf(text: str) -> list[str]:
    lines = text.split("\n")
    if lines and lines[-1] == "":
        lines.pop()
    return lines


def apply_unified(diff: str, original: str) -> str:
    """Apply `diff` to `original`; raise PatchError when a context or removed line does not match."""
    src = split_lf(original)
    dl = split_lf(diff)
    out: list[str] = []
    pos = 0  # index into src
    i = 0
    seen_hunk = False
    eof_blank = False
    while i < len(dl):
        line = dl[i]
        if not seen_hunk and (line.startswith("---") or line.startswith("+++")):
            i += 1
            continue
        m = _HUNK.match(line)
        if not m:
            if not seen_hunk:
                i += 1
                continue
            raise PatchError(f"unexpected diff line {i}: {line[:60]!r}")
        seen_hunk = True
        a = int(m.group(1))
        na = int(m.group(2)) if m.group(2) is not None else 1
        nb = int(m.group(4)) if m.group(4) is not None else 1
        start = a - 1 if na > 0 else a  # difflib: "-0,0" for empty source, "-k,0" = after line k
        if start < pos or start > len(src):
            raise PatchError(f"hunk at line {a} out of order / range")
        out.extend(src[pos:start])
        pos = start
        i += 1
        ca = cb = 0
        while i < len(dl) and (ca < na or cb < nb):
            h = dl[i]
            tag, body = (h[:1], h[1:]) if h else (" ", "")
            if tag == " " and body == "" and pos == len(src) and original.endswith("\n"):
                # the final newline shown as an empty last line (text.split("\n") artefact): covered by the
                # "up to the presence of a final newline" tolerance of C03
                ca += 1
                cb += 1
                eof_blank = True
                i += 1
                continue
            if tag == " ":
                if pos >= len(src) or src[pos] != body:
                    raise PatchError(f"context mismatch at source line {pos + 1}: diff has {body[:50]!r}, file has {src[pos][:50] if pos < len(src) else None!r}")
                out.append(body)
                pos += 1
                ca += 1
                cb += 1
            elif tag == "-":
                if pos >= len(src) or src[pos] != body:
                    raise PatchError(f"removed-line mismatch at source line {pos + 1}: diff has {body[:50]!r}, file has {src[pos][:50] if pos < len(src) else None!r}")
                pos += 1
                ca += 1
            elif tag == "+":
                out.append(body)
                cb += 1
            elif tag == "\\":
                pass
            else:
                raise PatchError(f"bad hunk line {i}: {h[:60]!r}")
            i += 1
        if ca != na or cb != nb:
            raise PatchError(f"hunk at {a} is short: {ca}/{na} source lines, {cb}/{nb} target lines")
    if not seen_hunk:
        raise PatchError("no hunk in diff")
    out.extend(src[pos:])
    res = "\n".join(out)
    if original.endswith("\n") or not original:
        res += "\n"
    return res


def strip_one_nl(s: str) -> str:
    return s[:-1] if s.endswith("\n") else s


def same_modulo_final_newline(a: str, b: str) -> bool:
    return strip_one_nl(a) == strip_one_nl(b)
