"""Rendering of ExprRewrite.tla expressions as Python text and parsing of Python expressions back into the algebra."""
from __future__ import annotations

import ast


class NotInAlgebra(ValueError):
    pass


# ------------------------------------------------------------------ algebra -> text
def _arg(a) -> str:
    if a["k"] == "lit":
        return repr(a["v"])
    if a["k"] == "name":
        return a["n"]
    els = [_arg(x) for x in a["vs"]]
    return "(" + ", ".join(els) + ("," if len(els) == 1 else "") + ")"


def _operand(o) -> str:
    if o["k"] == "blit":
        return "True" if o["v"] == 11 else "False"
    return str(o["v"]) if o["k"] == "int" else o["n"]


def render(e, parent: str | None = None, right: bool = False) -> str:
    t = e["t"]
    if t == "call":
        return f"{e['recv']}.{e['fn']}({_arg(e['arg'])})"
    if t == "name":
        return e["n"]
    if t == "not":
        inner = render(e["e"], "not")
        s = f"not {inner}"
        return f"({s})" if parent in ("and_r", "or_r") and False else s
    if t == "opd":
        return _operand(e["o"])
    if t == "cmp":
        s = _operand(e["left"]) + "".join(f" {r['op']} {_operand(r['right'])}" for r in e["rest"])
        return s
    if t == "bop":
        op = e["op"]
        left = render(e["l"], op, False)
        rgt = render(e["r"], op, True)
        s = f"{left} {op} {rgt}"
        # parentheses exactly where the tree shape needs them (`and` binds tighter than `or`; both associate to the left)
        need = False
        if parent in ("and", "or"):
            if parent == "and" and op == "or":
                need = True
            elif parent == op and right:
                need = True
            elif parent == "or" and op == "and":
                need = False
        elif parent == "not":
            need = True
        return f"({s})" if need else s
    raise NotInAlgebra(t)


# ------------------------------------------------------------------ text -> algebra
_OPS = {ast.Eq: "==", ast.NotEq: "!=", ast.Lt: "<", ast.Gt: ">", ast.LtE: "<=", ast.GtE: ">=", ast.Is: "is", ast.IsNot: "is not", ast.In: "in", ast.NotIn: "not in"}


def _parg(node):
    if isinstance(node, ast.Constant) and isinstance(node.value, str):
        return {"k": "lit", "v": node.value}
    if isinstance(node, ast.Name):
        return {"k": "name", "n": node.id}
    if isinstance(node, ast.Tuple):
        return {"k": "tup", "vs": tuple(_parg(x) for x in node.elts)}
    raise NotInAlgebra(ast.dump(node))


def _poperand(node):
    if isinstance(node, ast.Constant) and isinstance(node.value, bool):
        return {"k": "blit", "v": 11 if node.value else 10}
    if isinstance(node, ast.Constant) and isinstance(node.value, int) and not isinstance(node.value, bool):
        return {"k": "int", "v": node.value}
    if isinstance(node, ast.Name):
        return {"k": "tupv" if node.id == "t" else "var", "n": node.id}
    raise NotInAlgebra(ast.dump(node))


def from_ast(node):
    if isinstance(node, ast.BoolOp):
        op = "and" if isinstance(node.op, ast.And) else "or"
        vals = [from_ast(v) for v in node.values]
        acc = vals[0]
        for v in vals[1:]:
            acc = {"t": "bop", "op": op, "l": acc, "r": v}
        return acc
    if isinstance(node, ast.UnaryOp) and isinstance(node.op, ast.Not):
        return {"t": "not", "e": from_ast(node.operand)}
    if isinstance(node, ast.Compare):
        rest = tuple({"op": _OPS[type(o)], "right": _poperand(c)} for o, c in zip(node.ops, node.comparators))
        return {"t": "cmp", "left": _poperand(node.left), "rest": rest}
    if isinstance(node, ast.Call) and isinstance(node.func, ast.Attribute) and isinstance(node.func.value, ast.Name) and len(node.args) == 1 and not node.keywords:
        return {"t": "call", "recv": node.func.value.id, "fn": node.func.attr, "arg": _parg(node.args[0])}
    if isinstance(node, ast.Name) and node.id in ("x", "y", "z", "t"):
        return {"t": "opd", "o": _poperand(node)}
    if isinstance(node, ast.Name):
        return {"t": "name", "n": node.id}
    raise NotInAlgebra(ast.dump(node))


def parse(text: str):
    try:
        tree = ast.parse(text.strip(), mode="eval")
    except SyntaxError as ex:
        raise NotInAlgebra(f"syntax: {ex}") from ex
    return from_ast(tree.body)


def canon(e):
    """Structural form with tuples/dicts normalised (TLC dumps sequences as tuples)."""
    if isinstance(e, dict):
        return {k: canon(v) for k, v in sorted(e.items())}
    if isinstance(e, (list, tuple)):
        return tuple(canon(x) for x in e)
    return e
