#!/usr/bin/env python3
"""Re-run the owning check against every seeded change on a scratch worktree of /repo at its current HEAD (patch applied,
VERIF_REPO=<worktree>), and write seeded/<id>/recheck.json.  usage: tools_regress.py <lane> <lanes> [ids...]"""
import json
import os
import subprocess
import sys
import time

ENV = dict(os.environ, PATH="/venv/bin:" + os.environ["PATH"], SEMGREP_SEND_METRICS="off", SEMGREP_ENABLE_VERSION_CHECK="0", PYTHONDONTWRITEBYTECODE="1")


def sh(cmd, cwd=None, env=None, timeout=3600):
    p = subprocess.run(cmd, shell=True, cwd=cwd, env=env or ENV, capture_output=True, text=True, timeout=timeout)
    return p.returncode, p.stdout + p.stderr


def main():
    lane, lanes = int(sys.argv[1]), int(sys.argv[2])
    ids = sys.argv[3:] or sorted(os.listdir("/verif/seeded"))
    ids = [x for i, x in enumerate(ids) if i % lanes == lane]
    wt = f"/tmp/regr{lane}"
    sh(f"git -C /repo worktree remove --force {wt}")
    sh(f"git -C /repo worktree add --detach {wt} HEAD")
    head = sh("git -C /repo rev-parse --short HEAD")[1].strip()
    for sid in ids:
        d = f"/verif/seeded/{sid}"
        prop = sid.split("-")[0]
        sh("git checkout -- .", cwd=wt)
        rc, o = sh(f"git apply {d}/patch.diff", cwd=wt)
        out = {"seed": sid, "head": head, "when": time.strftime("%Y-%m-%d %H:%M")}
        if rc:
            out["applies"] = False
            out["note"] = "the patch no longer applies to the current HEAD (a later fix: commit changed the same lines)"
        else:
            out["applies"] = True
            t = time.time()
            rc, o = sh(f"./check {prop} quick", cwd="/verif", env=dict(ENV, VERIF_REPO=wt, VERIF_SCRATCH_BASE="/tmp"), timeout=7200)
            viol = [ln for ln in o.splitlines() if ln.startswith("VIOLATION")]
            out.update({"exit": rc, "violations": len(viol), "detected": rc == 1 and bool(viol), "wall_s": round(time.time() - t)})
        json.dump(out, open(f"{d}/recheck.json", "w"), indent=1)
        print(sid, out.get("applies"), out.get("detected"), out.get("violations"), flush=True)
    sh("git checkout -- .", cwd=wt)
    sh(f"git -C /repo worktree remove --force {wt}")


if __name__ == "__main__":
    main()
